"""C16 - concurrent lookups and renders behave like some sequential execution.

Engine E4: real threads under a baton scheduler; every interleaving of the
harness threads at the chosen scheduling points is executed on the real
TemplateLookup / Template, exhaustively (coarse points) or up to a preemption
bound (line-level points), with a per-execution oracle.
"""

import os
import shutil

from mc import core, sched, seams
from mc.core import Stats

PROPERTY = "C16"
LEVEL = "model_checking"
ENGINE = "E4"
TECHNIQUE = "stateless exploration of all thread interleavings of small closed harnesses on the real code under a controlled scheduler (iterative context bounding; exhaustive at coarse points), deterministic replay"
RULE = (
    "an execution = one complete interleaving (choice list) of a harness; all interleavings at coarse points (lock operations, "
    "file-system probes, Template construction, collection get/set/pop), and all interleavings with <= b preemptions at every executed "
    "line of mako/lookup.py and mako/util.py (plus runtime/cache/template/generated modules for the render harnesses). "
    "Non-trivial = executions with at least one preemption (a switch away from a thread that could have continued)."
)
LEVEL_TEXT = (
    "For each harness (same-URI cold load, different URIs, modify-while-loading, failing compile, LRU under contention, concurrent "
    "renders with first-use initialisation, concurrent first compiles) every schedule within the stated bound is executed on the real "
    "objects; results, object identity, number of constructions, freshness w.r.t. the file version at call start, absence of blocked "
    "threads and solo-equivalence of render output are checked on each."
)
LEVEL_NOTE = (
    "Scheduling points are lock operations, intercepted os/Template/collection calls and (fine mode) every line of the traced files; a "
    "switch between two bytecodes of one source line is not explored (CPython's GIL makes single C-level dict operations atomic). "
    "The scheduler owns all nondeterminism: each harness's first schedule is replayed and compared."
)
ASSUMPTIONS = [
    "line-level granularity: no switch inside one source line",
    "randomised priority schedules beyond the preemption bound (named in the quantifier) are sampling and are not used; the bound completed is reported",
    "the simulated clock / file mtimes are owned by the harness",
]
BOUNDS = {
    "quick": {"first_use": "2 threads rendering escaping filters / htmlentityreplace output on a freshly imported library per execution, every line of filters.py and util.py a scheduling point, preemption bound 1", "coarse": "all interleavings (2 threads; lru harness bound 3), bound 2 (3 threads)", "fine_preemption_bound": 1, "threads": "2-3"},
    "thorough": {"first_use": "as quick with bound 2, and 3 threads with bound 1", "coarse": "all interleavings (2 threads; lru harness bound 5), bound 3 (3 threads)", "fine_preemption_bound": "2 (lookup harnesses), 1 (render / compile harnesses)", "threads": "2-3"},
}
READY = True
PIN_CPUS = True  # baton hand-offs between the threads of one worker stay on one core

_PROC = {}


def _proc_root():
    if _PROC.get("pid") != os.getpid():
        _PROC.clear()
        _PROC["pid"] = os.getpid()
    r = _PROC.get("root")
    if r is None or not os.path.isdir(r):
        r = core.scratch_dir("c16-")
        os.mkdir(os.path.join(r, "d0"))
        _PROC["root"] = r
    return r


RARGS = {"a_A": "A", "a_B": "B", "b_A": "A", "b_B": "B"}


def content(u, v):
    # (each version of a file has its own page signature, see C14)
    if v == "X":
        return "${"
    return "<%%page args=\"a_%s='none'\"/><%%def name=\"f(b_%s='none')\">f|${b_%s}</%%def>%s|%s|${1+1}|${a_%s}" % (v, v, v, u, v, v)


def marker(u, v):
    return "%s|%s|2|%s#f|%s" % (u, v, v, v)


def _lock_factory(s):
    """threading.Lock as mako.lookup sees it: creating a lock is itself a scheduling point (a lock made on first
    use can be made twice)"""

    def make():
        s.yield_point("Lock.create")
        return s.lock()

    return make


def own_locks(sm, s):
    """every lock the library creates is a scheduler lock: `threading` as seen by every loaded mako module (and names
    imported from it) is answered by a forwarding proxy whose Lock / RLock make scheduler locks.  A real lock taken by a
    parked thread would stall the baton scheduler instead of showing up as a blocked thread."""
    import sys
    import threading as _threading

    def make_rlock():
        s.yield_point("RLock.create")
        return sched.SchedRLock(s)

    fwd = seams.Forward(_threading, {"Lock": _lock_factory(s), "RLock": make_rlock})
    for name, mod in list(sys.modules.items()):
        if mod is None or not (name == "mako" or name.startswith("mako.")):
            continue
        d = vars(mod)
        if d.get("threading") is _threading:
            sm.set(mod, "threading", fwd)
        if d.get("Lock") is _threading.Lock:
            sm.set(mod, "Lock", fwd.Lock)
        if d.get("RLock") is _threading.RLock:
            sm.set(mod, "RLock", fwd.RLock)


class World:
    """a fresh lookup over a fresh directory, with scheduler-aware seams"""

    def __init__(self, s, size=-1, fine=False):
        from mako import codegen, lookup as mlookup, util as mutil, template as mtemplate

        self.s = s
        self.root = _proc_root()
        self.dir = os.path.join(self.root, "d0")
        self.clock = seams.SimClock(1000.0)
        self.timer = seams.LogicalTimer()
        self.sm = seams.Seams()
        seams.own_clocks(self.sm, self.clock, self.timer)
        self.constructions = 0
        self.disk_version = {}
        w = self
        RealTemplate = mtemplate.Template
        self.RealTemplate = RealTemplate

        def Template(*a, **k):
            s.yield_point("Template.enter")
            w.constructions += 1
            try:
                return RealTemplate(*a, **k)
            finally:
                s.yield_point("Template.exit")

        self.sm.set(mlookup, "Template", Template)

        def y(label, fn):
            def call(*a, **k):
                s.yield_point(label)
                return fn(*a, **k)

            return call

        self.sm.set(
            mlookup,
            "os",
            seams.Forward(os, {"stat": y("os.stat", os.stat)}, {"isfile": y("isfile", os.path.isfile)}),
        )
        # the lookup creates its own lock, whenever it does so: threading.Lock as mako.lookup sees it is the
        # scheduler's lock (the harness does not touch the lookup's attributes)
        import threading as _threading

        own_locks(self.sm, s)
        self.lookup = mlookup.TemplateLookup(directories=[self.dir], collection_size=size)
        if not fine:
            self.lookup._collection = _ydict(s, self.lookup._collection, size, mutil)

    def write(self, u, v, mtime):
        p = os.path.join(self.dir, u)
        tmp = p + ".tmp"
        with open(tmp, "w") as f:
            f.write(content(u, v))
        os.utime(tmp, (mtime, mtime))
        os.replace(tmp, p)
        self.disk_version[u] = v

    def close(self):
        self.sm.restore()
        for e in os.scandir(self.dir):
            os.unlink(e.path)


def _ydict(s, old, size, mutil):
    base = dict if size == -1 else mutil.LRUCache

    class YColl(base):
        def __getitem__(self, k):
            s.yield_point("coll.get")
            return base.__getitem__(self, k)

        def __setitem__(self, k, v):
            s.yield_point("coll.set")
            return base.__setitem__(self, k, v)

        def pop(self, *a):
            s.yield_point("coll.pop")
            return base.pop(self, *a)

    if size != -1:
        # reading an entry's recency stamp is a scheduling point (the pruning pass reads every stamp while
        # other threads may add or remove entries)
        class YItem(base._Item):
            def _get(self):
                s.yield_point("item.timestamp")
                return self.__dict__["_ts"]

            def _set(self, v):
                self.__dict__["_ts"] = v

            timestamp = property(_get, _set)

        YColl._Item = YItem
    return YColl() if size == -1 else YColl(size)


def _render(t):
    try:
        return t.render(**RARGS) + "#" + t.get_def("f").render(**RARGS)
    except BaseException as e:  # noqa
        return "EXC:%s" % type(e).__name__


# --------------------------------------------------------------------------
# harnesses: each returns (threads, finish)   finish(ex) -> list of (sig, oracle, expected, observed)


def _results_ok(ex, n):
    bad = []
    for i in range(n):
        r = ex.results.get(i)
        if r is None or r[0] != "ok":
            bad.append((i, r[0] if r else None, repr(r[1])[:120] if r else None))
    return bad


def h_same(w, nthreads):
    w.write("u", "A", 990)

    def body():
        return w.lookup.get_template("u")

    def finish(ex):
        v = []
        bad = _results_ok(ex, nthreads)
        if bad:
            return [("same:exception", "no call raises", "Template", bad)]
        objs = [ex.results[i][1] for i in range(nthreads)]
        if any(o is not objs[0] for o in objs):
            v.append(("same:distinct-objects", "simultaneous first requests receive the same object", "one object", "%d objects" % len({id(o) for o in objs})))
        if w.constructions != 1:
            v.append(("same:constructions", "simultaneous first requests compile once", 1, w.constructions))
        for o in objs:
            if not isinstance(o, w.RealTemplate) or o.module is None or o.callable_ is None or o.lookup is not w.lookup:
                v.append(("same:incomplete", "completely constructed Template", "module/callable_/lookup set", repr(o)))
            elif _render(o) != marker("u", "A"):
                v.append(("same:content", "renders file content", marker("u", "A"), _render(o)))
        return v

    return [body] * nthreads, finish


def h_diff(w, nthreads):
    us = ["u", "v", "w"][:nthreads]
    for u in us:
        w.write(u, "A", 990)

    def mk(u):
        return lambda: w.lookup.get_template(u)

    def finish(ex):
        v = []
        bad = _results_ok(ex, nthreads)
        if bad:
            return [("diff:exception", "no call raises", "Template", bad)]
        for i, u in enumerate(us):
            o = ex.results[i][1]
            if _render(o) != marker(u, "A"):
                v.append(("diff:content", "each URI gets its own template", marker(u, "A"), _render(o)))
        if w.constructions != nthreads:
            v.append(("diff:constructions", "one construction per URI", nthreads, w.constructions))
        return v

    return [mk(u) for u in us], finish


def h_modify(w, nthreads):
    """warm lookup; a writer atomically replaces the file with version B (mtime two seconds after the compile)"""
    w.write("u", "A", 990)
    first = w.lookup.get_template("u")  # compiled at clock 1000 (set-up, not scheduled)
    starts = {}

    def getter(i):
        def body():
            w.s.yield_point("call.start")
            starts[i] = w.disk_version["u"]
            return w.lookup.get_template("u")

        return body

    def writer():
        w.s.yield_point("writer.start")
        w.clock.now = 1003.0
        w.write("u", "B", 1002)  # atomic: no scheduling point between the replace and the version note
        w.s.yield_point("writer.done")
        return None

    threads = [getter(0), writer] + ([getter(2)] if nthreads > 2 else [])

    def finish(ex):
        v = []
        bad = _results_ok(ex, len(threads))
        if bad:
            return [("modify:exception", "no call raises", "Template/None", bad)]
        for i in starts:
            o = ex.results[i][1]
            got = _render(o)
            if got not in (marker("u", "A"), marker("u", "B")):
                v.append(("modify:content", "renders a version of the file", "A or B", got))
            elif starts[i] == "B" and got != marker("u", "B"):
                v.append(("modify:stale", "content no older than at the start of the call (mtime >= compile + 1 s)", marker("u", "B"), got))
            if not isinstance(o, w.RealTemplate) or o.module is None or o.callable_ is None:
                v.append(("modify:incomplete", "completely constructed Template", "complete", repr(o)))
        # afterwards a sequential call must see B
        try:
            o = w.lookup.get_template("u")
            if _render(o) != marker("u", "B"):
                v.append(("modify:after", "a later call serves the new content", marker("u", "B"), _render(o)))
        except BaseException as e:  # noqa
            v.append(("modify:after-exc", "lookup usable afterwards", "Template", repr(e)[:120]))
        return v

    return threads, finish


def h_cold_modify(w, nthreads):
    """COLD lookup: two simultaneous first requests for one URI while a writer replaces the file with version B (mtime two
    seconds after the first compile): the request that waited for the other one's compile finds the entry already there - and
    possibly already stale"""
    w.write("u", "A", 990)
    starts = {}

    def getter(i):
        def body():
            w.s.yield_point("call.start")
            starts[i] = w.disk_version["u"]
            return w.lookup.get_template("u")

        return body

    def writer():
        w.s.yield_point("writer.start")
        w.clock.now = 1003.0
        w.write("u", "B", 1002)
        w.s.yield_point("writer.done")
        return None

    threads = [getter(0), writer, getter(2)]

    def finish(ex):
        v = []
        bad = _results_ok(ex, len(threads))
        if bad:
            return [("cold-modify:exception", "no call raises", "Template/None", bad)]
        for i in starts:
            o = ex.results[i][1]
            got = _render(o)
            if got not in (marker("u", "A"), marker("u", "B")):
                v.append(("cold-modify:content", "renders a version of the file", "A or B", got))
            elif starts[i] == "B" and got != marker("u", "B"):
                v.append(("cold-modify:stale", "content no older than at the start of the call", marker("u", "B"), got))
            if not isinstance(o, w.RealTemplate) or o.module is None or o.callable_ is None:
                v.append(("cold-modify:incomplete", "completely constructed Template", "complete", repr(o)))
        try:
            o = w.lookup.get_template("u")
            if _render(o) != marker("u", "B"):
                v.append(("cold-modify:after", "a later call serves the new content", marker("u", "B"), _render(o)))
        except BaseException as e:  # noqa
            v.append(("cold-modify:after-exc", "lookup usable afterwards", "Template", repr(e)[:120]))
        return v

    return threads, finish


def h_broken(w, nthreads):
    from mako import exceptions

    w.write("u", "X", 990)

    def body():
        return w.lookup.get_template("u")

    def finish(ex):
        v = []
        for i in range(nthreads):
            r = ex.results.get(i)
            if r is None or r[0] != "exc" or not isinstance(r[1], (exceptions.SyntaxException, exceptions.CompileException)):
                v.append(("broken:outcome", "a broken file raises a Mako compile exception in every caller", "SyntaxException", repr(r)[:160]))
        if w.lookup._mutex.locked():
            v.append(("broken:lock-held", "the lookup lock is released after a failing compile", "released", "held"))
        w.clock.now = 1005.0
        w.write("u", "A", 1004)
        try:
            o = w.lookup.get_template("u")
            if _render(o) != marker("u", "A"):
                v.append(("broken:after", "the corrected file loads", marker("u", "A"), _render(o)))
        except BaseException as e:  # noqa
            v.append(("broken:after-exc", "the corrected file loads", "Template", repr(e)[:120]))
        return v

    return [body] * nthreads, finish


def h_lru(w, nthreads):
    """collection_size=1: two gets per thread over overlapping URIs"""
    for u in ("u", "v", "w"):
        w.write(u, "A", 990)
    plans = [["u", "v"], ["v", "w"], ["w", "u"]][:nthreads]

    def mk(us):
        def body():
            return [w.lookup.get_template(u) for u in us]

        return body

    def finish(ex):
        v = []
        bad = _results_ok(ex, nthreads)
        if bad:
            return [("lru:exception", "no call raises", "Templates", bad)]
        for i, us in enumerate(plans):
            for u, o in zip(us, ex.results[i][1]):
                if _render(o) != marker(u, "A"):
                    v.append(("lru:content", "eviction never changes what a lookup returns", marker(u, "A"), _render(o)))
        n = len(dict.keys(w.lookup._collection))
        if n > 1.5 * 1:
            v.append(("lru:bound", "a bounded lookup stays within 1.5n at quiescence", "<= 1", n))
        return v

    return [mk(p) for p in plans], finish


def h_lru_modify(w, nthreads):
    """collection_size=1, warm entry whose file has changed: eviction (under the lock) races with the
    stale-entry removal of _check (outside the lock)"""
    for u in ("u", "v", "w"):
        w.write(u, "A", 990)
    w.lookup.get_template("u")  # compiled at clock 1000
    w.clock.now = 1003.0
    w.write("u", "B", 1002)
    plans = [["v", "w"], ["u"], ["u", "v"]][:nthreads]
    want = {"u": "B", "v": "A", "w": "A"}

    def mk(us):
        def body():
            return [w.lookup.get_template(u) for u in us]

        return body

    def finish(ex):
        v = []
        bad = _results_ok(ex, nthreads)
        if bad:
            return [("lru-modify:exception", "no call raises", "Templates", bad)]
        for i, us in enumerate(plans):
            for u, o in zip(us, ex.results[i][1]):
                if _render(o) != marker(u, want[u]):
                    v.append(("lru-modify:content", "fresh content, unaffected by eviction", marker(u, want[u]), _render(o)))
        n = len(dict.keys(w.lookup._collection))
        if n > 1.5 * 1:
            v.append(("lru-modify:bound", "a bounded lookup stays within 1.5n at quiescence", "<= 1", n))
        return v

    return [mk(p) for p in plans], finish


HARNESSES = {
    "same": (h_same, -1),
    "diff": (h_diff, -1),
    "modify": (h_modify, -1),
    "cold-modify": (h_cold_modify, -1),
    "broken": (h_broken, -1),
    "lru": (h_lru, 1),
    "same-lru": (h_same, 1),
    "lru-modify": (h_lru_modify, 1),
}


# --------------------------------------------------------------------------
# render harnesses (H6/H7)

MAIN = """<%inherit file="base.html"/><%namespace file="ns.html" import="*"/>\\
<%def name="c()" cached="True" cache_timeout="30" cache_region="short">[cached]</%def>\\
<%! from mc.c16_cache import deco %><%def name="dd(a)" decorator="deco">dd${a}${x}</%def>\\
m:${x}:${nsd(x)}:${c()}:${dd(x)}:<%include file="inc.html" args="y=x"/>"""
BASE = """B(${self.body()})${x}"""
NS = """<%def name="nsd(a)">ns${a}</%def>"""
INC = """<%page args="y"/>i${y}"""


class RenderWorld:
    def __init__(self, s, fine, lru=False):
        from mako import codegen, lookup as mlookup, cache as mcache, lexer as mlexer

        self.s = s
        self.sm = seams.Seams()
        self.clock = seams.SimClock(1000.0)
        self.sm.set(codegen, "time", self.clock)
        if "c16dict" not in mcache._cache_plugins.impls:
            mcache.register_plugin("c16dict", "mc.c16_cache", "DictCache")
        import mc.c16_cache as cc

        cc.STORE.clear()
        del cc.CALLS[:]
        cc.SCHED = s
        self.cc = cc
        mlexer._regexp_cache.clear()
        self.files = []
        import threading as _threading

        own_locks(self.sm, s)
        if lru:
            # a bounded lookup over files (its template cache and its URI cache are both LRU caches of size 1:
            # every render evicts and reloads); same templates, same decoys
            root = os.path.join(_proc_root(), "rl")
            os.makedirs(os.path.join(root, "sub"), exist_ok=True)
            for name, text in (("base.html", "DECOY"), ("ns.html", "DECOY"), ("inc.html", "DECOY"), ("sub/base.html", BASE), ("sub/ns.html", NS), ("sub/inc.html", INC), ("sub/main.html", MAIN)):
                pth = os.path.join(root, name)
                with open(pth, "w") as f:
                    f.write(text)
                os.utime(pth, (990, 990))
                self.files.append(pth)
            self.lookup = mlookup.TemplateLookup(directories=[root], collection_size=1, cache_impl="c16dict", cache_args={"type": "memory", "region": "default"})
            return
        self.lookup = mlookup.TemplateLookup(cache_impl="c16dict", cache_args={"type": "memory", "region": "default"})
        # the templates live in a sub-directory and name each other relatively, so that URI adjustment matters;
        # same-named decoys answer to the unadjusted names
        for d in ("base.html", "ns.html", "inc.html"):
            self.lookup.put_string(d, "DECOY")
            self.lookup.put_string("/" + d, "DECOY")
        self.lookup.put_string("/sub/base.html", BASE)
        self.lookup.put_string("/sub/ns.html", NS)
        self.lookup.put_string("/sub/inc.html", INC)
        self.lookup.put_string("/sub/main.html", MAIN)

    def close(self):
        self.sm.restore()
        self.cc.SCHED = None
        for pth in self.files:
            try:
                os.unlink(pth)
            except OSError:
                pass


def solo_outputs(lru=False):
    """each context alone, each on a fresh world (so that first-use initialisation is included)"""
    if _PROC.get("pid") != os.getpid():
        _PROC.clear()
        _PROC["pid"] = os.getpid()
    key = "solo-lru" if lru else "solo"
    if key not in _PROC:
        solos = []
        for x in ("0", "1", "2"):
            s2 = sched.Scheduler()
            w2 = RenderWorld(s2, False, lru=lru)
            try:
                solos.append(w2.lookup.get_template("/sub/main.html").render(x=x))
            finally:
                w2.close()
        _PROC[key] = solos
    return _PROC[key]


def h_render(w, nthreads):
    t = w.lookup.get_template("/sub/main.html")
    solos = w.solos

    def mk(x):
        return lambda: t.render(x=x)

    def finish(ex):
        v = []
        bad = _results_ok(ex, nthreads)
        if bad:
            return [("render:exception", "concurrent renders do not raise", "output", bad)]
        for i in range(nthreads):
            if ex.results[i][1] != solos[i]:
                v.append(("render:crosstalk", "each render produces exactly its solo output", solos[i], ex.results[i][1]))
        want = {"type": "memory", "region": "short", "timeout": 30}
        for key, kw in w.cc.CALLS:
            if kw != want:
                v.append(("render:cache-args", "every call reaches the backend with the section's complete cache arguments (first-use initialisation included)", want, (key, kw)))
                break
        return v

    return [mk(str(i)) for i in range(nthreads)], finish


BLOCK_TEXTS = [
    "<%\n    a = \"\"\"x\n      y\"\"\"\n    b = 1\n%>[${a}]${b}",
    "<%\n    c = 2\n    if c:\n        d = 'z'\n%>${c}${d}",
    "<%!\n    K = \"\"\"k\n  k\"\"\"\n%>${K}",
]

COMPILE_TEXTS = [
    "<%def name='f(a)'>${a}!</%def>A${f(x)}\n% if x:\nyes\n% endif\n",
    "<%! k = 7 %>B${k}${x | h}<%doc>z</%doc>\n## c\n",
    "<%text>${raw}</%text>C${x}\\\nD",
]


def compile_solo(texts=None, key="csolo"):
    from mako.template import Template
    from mako import lexer as mlexer

    texts = texts or COMPILE_TEXTS
    if _PROC.get("pid") != os.getpid():
        _PROC.clear()
        _PROC["pid"] = os.getpid()
    if key not in _PROC:
        out = []
        for i, t in enumerate(texts):
            mlexer._regexp_cache.clear()
            if key == "esolo":
                out.append(Template(t, uri="e%d" % i, imports=["from mc.props.c16 import tag"]).render(x=" 1 "))
            else:
                out.append(Template(t, uri="t%d" % i).render(x="1"))
        _PROC[key] = out
    return _PROC[key]


def h_compile(w, nthreads, texts_all=None):
    """first compile of different template texts in different threads (shared regexp cache, module registry)"""
    from mako.template import Template

    texts = (texts_all or COMPILE_TEXTS)[:nthreads]
    expected = w.solos

    def mk(i):
        def body():
            t = Template(texts[i], uri="t%d" % i)
            return (t.render(x="1"), t.source)

        return body

    def finish(ex):
        v = []
        bad = _results_ok(ex, nthreads)
        if bad:
            return [("compile:exception", "concurrent first compiles do not raise", "output", bad)]
        for i in range(nthreads):
            out, src = ex.results[i][1]
            if out != expected[i]:
                v.append(("compile:output", "each template renders its own text", expected[i], out))
            if src != texts[i]:
                v.append(("compile:source", "Template.source is the template's own text", texts[i], src))
        return v

    return [mk(i) for i in range(nthreads)], finish


def h_compile_blocks(w, nthreads):
    """concurrent compiles of templates with Python blocks: the re-margining scanners (pygen) at line level"""
    return h_compile(w, nthreads, BLOCK_TEXTS)


EXPR_TEXTS = [
    "<%def name=\"f(a='tail', b=(1, 'A'))\">[${a}${b[1]}]</%def>${f()}${x | tag('A'), trim}<%def name=\"h()\" filter=\"tag('A2')\">h</%def>${h()}",
    "<%def name=\"g(c='head', d=(2, 'B'))\">(${c}${d[1]})</%def>${g()}${x | tag('B'), trim}<%def name=\"k()\" filter=\"tag('B2')\">k</%def>${k()}",
    "<%def name=\"m(e=[3, 'C'])\">{${e[1]}}</%def>${m()}${x | tag('C')}",
]


def tag(t):
    return lambda s: "%s<%s>" % (t, s)


def h_compile_calls(w, nthreads):
    """concurrent first compiles with a yield point at every function entry of the compiler behind the lexer
    (lexer, parse tree, Python analysis and re-emission, code generation, printer)"""
    from mako.template import Template

    texts = EXPR_TEXTS[:nthreads]
    expected = w.solos

    def mk(i):
        def body():
            t = Template(texts[i], uri="e%d" % i, imports=["from mc.props.c16 import tag"])
            return (t.render(x=" 1 "), t.source)

        return body

    _, finish = h_compile(w, nthreads, EXPR_TEXTS)
    return [mk(i) for i in range(nthreads)], finish


RENDER_HARNESSES = {"render": h_render, "render-rt": h_render, "render-lru": h_render, "compile": h_compile, "compile-blocks": h_compile_blocks, "compile-calls": h_compile_calls, "compile-calls-wide": h_compile_calls}


# --------------------------------------------------------------------------
# first-use harness: every execution starts from a freshly imported mako, so that whatever the library
# initialises lazily at process level (tables, memos, plug-in registries) is uninitialised when the threads start.
# The templates are compiled before the threads start; the threads only render.

FIRST_USE_TEXT = "${a | entity}|${a | h}|${a | x}|${a | u}|${b | trim, entity}|<%block filter='entity'>${a}</%block>"
FIRST_USE_ARGS = [{"a": "\u00e9<\"&\u20ac\u0436\u4e2d0", "b": " \u00df\u2026\u0436 "}, {"a": "\u00fc>'&\u2122\u0436\u4e2d 1", "b": "\t\u00f1\u2020\u4e2d"}, {"a": "\u00a9\u4e2d\u04362", "b": "\u00ab\u00bb\u4e2d"}]  # named-entity characters and characters without one


def fresh_mako():
    """drop every loaded mako module and import the library again (from the bound repository)"""
    import sys

    for k in [k for k in sys.modules if k == "mako" or k.startswith("mako.")]:
        del sys.modules[k]
    core.bind_repo()
    import mako.template, mako.lookup, mako.filters, mako.runtime  # noqa


class FirstUseWorld:
    def __init__(self, s):
        fresh_mako()
        from mako.template import Template

        self.s = s
        self.templates = [
            Template(FIRST_USE_TEXT),
            Template(FIRST_USE_TEXT, output_encoding="ascii", encoding_errors="htmlentityreplace"),
            Template(FIRST_USE_TEXT, output_encoding="cp1251", encoding_errors="htmlentityreplace"),
        ]

    def close(self):
        pass


def first_use_solo():
    if _PROC.get("pid") != os.getpid():
        _PROC.clear()
        _PROC["pid"] = os.getpid()
    if "fusolo" not in _PROC:
        out = []
        for i in range(3):
            w = FirstUseWorld(sched.Scheduler())
            out.append(w.templates[i].render(**FIRST_USE_ARGS[i]))
        _PROC["fusolo"] = out
    return _PROC["fusolo"]


def h_first_use(w, nthreads):
    solos = w.solos

    def mk(i):
        return lambda: w.templates[i].render(**FIRST_USE_ARGS[i])

    def finish(ex):
        bad = _results_ok(ex, nthreads)
        if bad:
            return [("first-use:exception", "concurrent renders do not raise", "output", bad)]
        v = []
        for i in range(nthreads):
            if ex.results[i][1] != solos[i]:
                v.append(("first-use:crosstalk", "each render produces exactly its solo output, first use of the escaping filters included", solos[i], ex.results[i][1]))
        return v

    return [mk(i) for i in range(nthreads)], finish


# --------------------------------------------------------------------------
# module-ns harness: simultaneous first renders of templates that use a Python module as a namespace; the module is
# not imported yet and its body passes scheduling points.  The import system's per-module lock is modelled by a
# scheduler lock around __import__ (a real lock would stall the baton scheduler).

MODNS_TEXTS = [
    '<%namespace name="h" module="mc.c16_nsmod"/>[${h.greet(x)}${h.other()}]',
    '<%namespace module="mc.c16_nsmod" import="*"/>[${greet(x)}${other()}]',
    '<%namespace name="h" module="mc.c16_nsmod"/><%def name="d()">${h.greet(x)}</%def>[${d()}]',
]
MODNS_SOLO = ["[hello 0o]", "[hello 1o]", "[hello 2]"]


class ModNsWorld:
    def __init__(self, s):
        import builtins
        import sys

        from mako import lookup as mlookup, runtime as mruntime
        import mc.c16_cache as cc

        self.s = s
        self.sm = seams.Seams()
        cc.SCHED = s
        self.cc = cc
        sys.modules.pop("mc.c16_nsmod", None)
        if hasattr(sys.modules.get("mc"), "c16_nsmod"):
            delattr(sys.modules["mc"], "c16_nsmod")
        locks = {}
        real_import = builtins.__import__

        def sched_import(name, *a, **k):
            if not name.startswith("mc.c16_nsmod"):
                return real_import(name, *a, **k)
            lk = locks.setdefault(name, s.lock())
            lk.acquire()
            try:
                return real_import(name, *a, **k)
            finally:
                lk.release()

        mruntime.__import__ = sched_import  # a module global shadows the builtin (removed again in close())
        self.mruntime = mruntime
        import threading as _threading

        own_locks(self.sm, s)
        self.lookup = mlookup.TemplateLookup()
        for i, t in enumerate(MODNS_TEXTS):
            self.lookup.put_string("/m%d.html" % i, t)

    def close(self):
        self.sm.restore()
        self.cc.SCHED = None
        if "__import__" in vars(self.mruntime):
            del self.mruntime.__import__


def h_modns(w, nthreads):
    ts = [w.lookup.get_template("/m%d.html" % i) for i in range(nthreads)]

    def mk(i):
        return lambda: ts[i].render(x=str(i))

    def finish(ex):
        bad = _results_ok(ex, nthreads)
        if bad:
            return [("module-ns:exception", "simultaneous first renders through a module namespace do not raise", "output", bad)]
        v = []
        for i in range(nthreads):
            if ex.results[i][1] != MODNS_SOLO[i]:
                v.append(("module-ns:crosstalk", "each render produces exactly its solo output", MODNS_SOLO[i], ex.results[i][1]))
        return v

    return [mk(i) for i in range(nthreads)], finish


def run_modns(spec, prefix, record=False):
    name, nthreads, fine = spec
    s = sched.Scheduler(prefix, record_trace=record, horizon=20000)
    w = ModNsWorld(s)
    try:
        threads, finish = h_modns(w, nthreads)
        for t in threads:
            s.spawn(t)
        ex = s.run()
        if ex.deadlock:
            return ex, [("module-ns:blocked-thread", "no thread is left blocked", "all threads finish", ex.deadlock)]
        if ex.horizon:
            return ex, [("module-ns:horizon", "execution finishes within the step horizon", "finish", "horizon")]
        return ex, finish(ex)
    finally:
        w.close()


# --------------------------------------------------------------------------
# render-xcache harness: two templates linked by inheritance whose CACHED defs call a cached def of the other template,
# in both directions (a per-template lock held while a section is created would be taken in opposite orders)

XC_MAIN = """<%inherit file="xbase.html"/>\\
<%def name="title()" cached="True" cache_key="t${x}">T${x}</%def>\\
<%def name="side()" cached="True" cache_key="s${x}">side(${parent.links()})</%def>\\
m:${side()}"""
XC_BASE = """<%def name="links()" cached="True" cache_key="l${x}">L${x}</%def>\\
<%def name="head()" cached="True" cache_key="h${x}">head(${self.title()})</%def>\\
B[${self.head()}|${self.body()}]"""


class XCacheWorld:
    def __init__(self, s):
        from mako import lookup as mlookup, cache as mcache

        self.s = s
        self.sm = seams.Seams()
        if "c16dict" not in mcache._cache_plugins.impls:
            mcache.register_plugin("c16dict", "mc.c16_cache", "DictCache")
        import mc.c16_cache as cc

        cc.STORE.clear()
        del cc.CALLS[:]
        cc.SCHED = s
        self.cc = cc
        own_locks(self.sm, s)
        self.lookup = mlookup.TemplateLookup(cache_impl="c16dict")
        self.lookup.put_string("/xbase.html", XC_BASE)
        self.lookup.put_string("/xmain.html", XC_MAIN)

    def close(self):
        self.sm.restore()
        self.cc.SCHED = None


def xcache_solo():
    if _PROC.get("pid") != os.getpid():
        _PROC.clear()
        _PROC["pid"] = os.getpid()
    if "xsolo" not in _PROC:
        out = []
        for x in ("0", "1", "2"):
            w = XCacheWorld(sched.Scheduler())
            try:
                out.append(w.lookup.get_template("/xmain.html").render(x=x))
            finally:
                w.close()
        _PROC["xsolo"] = out
    return _PROC["xsolo"]


def run_xcache(spec, prefix, record=False):
    name, nthreads, fine = spec
    s = sched.Scheduler(prefix, record_trace=record, horizon=20000)
    solos = xcache_solo()
    w = XCacheWorld(s)
    try:
        t = w.lookup.get_template("/xmain.html")
        for i in range(nthreads):
            s.spawn((lambda x: (lambda: t.render(x=x)))(str(i)))
        ex = s.run()
        if ex.deadlock:
            return ex, [("render-xcache:blocked-thread", "no thread is left blocked", "all threads finish", ex.deadlock)]
        if ex.horizon:
            return ex, [("render-xcache:horizon", "execution finishes within the step horizon", "finish", "horizon")]
        bad = _results_ok(ex, nthreads)
        if bad:
            return ex, [("render-xcache:exception", "concurrent renders do not raise", "output", bad)]
        v = []
        for i in range(nthreads):
            if ex.results[i][1] != solos[i]:
                v.append(("render-xcache:crosstalk", "each render produces exactly its solo output", solos[i], ex.results[i][1]))
        return ex, v
    finally:
        w.close()


# --------------------------------------------------------------------------
# running one schedule


def trace_prefixes(kind):
    repo = os.path.abspath(core.REPO)
    base = (os.path.join(repo, "mako", "lookup.py"), os.path.join(repo, "mako", "util.py"))
    if kind in ("render",):
        return (
            os.path.join(repo, "mako", "runtime.py"),
            os.path.join(repo, "mako", "cache.py"),
            os.path.join(repo, "mako", "template.py"),
            os.path.join(repo, "mako", "lookup.py"),
            "_sub_main_html", "_sub_base_html", "_sub_ns_html", "_sub_inc_html",
        )
    if kind == "render-lru":
        return (os.path.join(repo, "mako", "lookup.py"), os.path.join(repo, "mako", "util.py"))
    if kind == "render-rt":
        # the runtime's own shared state only (namespaces, caches, URI and lookup caches), for a deeper preemption bound
        return tuple(os.path.join(repo, "mako", f) for f in ("cache.py", "lookup.py", "util.py"))
    if kind in ("compile",):
        return (os.path.join(repo, "mako", "lexer.py"), os.path.join(repo, "mako", "template.py"))
    if kind == "compile-blocks":
        return (os.path.join(repo, "mako", "pygen.py"),)
    if kind == "compile-calls":
        # the Python analysis / re-emission entry points
        return tuple(os.path.join(repo, "mako", f) for f in ("pyparser.py", "ast.py", "parsetree.py"))
    if kind == "compile-calls-wide":
        # everything behind the lexer's matchers (those are covered line by line by "compile")
        return tuple(os.path.join(repo, "mako", f) for f in ("pyparser.py", "_ast_util.py", "ast.py", "parsetree.py", "codegen.py", "pygen.py", "filters.py"))
    return base


def run_one(spec, prefix, record=False):
    if spec[0] == "first-use":
        return run_first_use(spec, prefix, record)
    if spec[0] == "module-ns":
        return run_modns(spec, prefix, record)
    if spec[0] == "render-xcache":
        return run_xcache(spec, prefix, record)
    return _run_one(spec, prefix, record)


def run_first_use(spec, prefix, record=False):
    name, nthreads, fine = spec
    repo = os.path.abspath(core.REPO)
    s = sched.Scheduler(prefix, trace_files=(os.path.join(repo, "mako", "filters.py"), os.path.join(repo, "mako", "util.py")) if fine else None, record_trace=record, horizon=50000)
    solos = first_use_solo()
    w = FirstUseWorld(s)
    w.solos = solos
    threads, finish = h_first_use(w, nthreads)
    for t in threads:
        s.spawn(t)
    ex = s.run()
    if ex.deadlock:
        return ex, [("first-use:blocked-thread", "no thread is left blocked", "all threads finish", ex.deadlock)]
    if ex.horizon:
        return ex, [("first-use:horizon", "execution finishes within the step horizon", "finish", "horizon")]
    return ex, finish(ex)


def _run_one(spec, prefix, record=False):
    """spec = (harness, nthreads, fine)  -> (Execution, violations)"""
    name, nthreads, fine = spec
    names = None
    if name == "compile-blocks":
        # the re-margining scanners only (the printer itself runs for every generated line)
        names = {"adjust_whitespace", "in_multi_line", "_indent_line", "_flush_adjusted_lines", "_in_multi_line", "_reset_multi_line_flags", "write_indented_block", "_expand_leading_tabs"}
    s = sched.Scheduler(prefix, trace_files=trace_prefixes(name) if fine else None, record_trace=record, trace_names=names,
                        trace_calls=name.startswith("compile-calls"), horizon=200000 if name.startswith("compile-calls") else 20000)
    if name in RENDER_HARNESSES:
        if name == "render-lru":
            solos = solo_outputs(lru=True)
        elif name in ("render", "render-rt"):
            solos = solo_outputs()
        elif name == "compile-blocks":
            solos = compile_solo(BLOCK_TEXTS, "bsolo")
        elif name.startswith("compile-calls"):
            solos = compile_solo(EXPR_TEXTS, "esolo")
        else:
            solos = compile_solo()
        w = RenderWorld(s, fine, lru=(name == "render-lru"))
        if name in ("compile", "compile-blocks") and not fine:
            from mako import lexer as mlexer

            class YCache(dict):
                def __getitem__(self, k):
                    s.yield_point("regexp_cache.get")
                    return dict.__getitem__(self, k)

                def __setitem__(self, k, v):
                    s.yield_point("regexp_cache.set")
                    return dict.__setitem__(self, k, v)

            w.sm.set(mlexer, "_regexp_cache", YCache())
        w.solos = solos
        fn = RENDER_HARNESSES[name]
    else:
        fn, size = HARNESSES[name]
        w = World(s, size=size, fine=fine)
    try:
        threads, finish = fn(w, nthreads)
        for t in threads:
            s.spawn(t)
        ex = s.run()
        viol = []
        if ex.deadlock:
            viol.append(("%s:blocked-thread" % name, "no thread is left blocked", "all threads finish", ex.deadlock))
        elif ex.horizon:
            viol.append(("%s:horizon" % name, "execution finishes within the step horizon", "finish", "horizon"))
        else:
            viol = finish(ex)
            lk = getattr(getattr(w, "lookup", None), "_mutex", None)
            if lk is not None and lk.locked():
                viol.append(("%s:lock-held-at-quiescence" % name, "no thread is left blocked: the lookup lock is free when every call has returned", "released", "held by thread %r" % (lk.holder,)))
        return ex, viol
    finally:
        w.close()


def specs(tier):
    """(harness, nthreads, fine, bound)   bound None = all interleavings"""
    q = tier == "quick"
    out = []
    for h in ("same", "diff", "modify", "broken", "lru", "same-lru", "lru-modify"):
        big = h in ("lru", "lru-modify")
        out.append((h, 2, False, (3 if q else 5) if big else None))  # coarse points
        out.append((h, 3, False, 2 if q else 3))
        out.append((h, 3 if h == "modify" else 2, True, 1 if q else 2))  # every line of lookup.py / util.py
        if not q:
            out.append((h, 3, True, 1))
    out.append(("cold-modify", 3, False, 3 if q else 4))
    out.append(("render", 2, False, None))
    out.append(("render", 2, True, 1))  # ~830 line-level points: bound 2 would be ~10^5 executions of 50 ms each
    out.append(("render-lru", 2, True, 1))  # bounded lookup: the unlocked LRU caches (templates, URIs) under concurrent renders
    out.append(("render-xcache", 2, False, 2 if q else 3))  # cached defs of two templates calling each other in both directions
    out.append(("module-ns", 2, False, None))  # all interleavings of two first renders through a module namespace
    out.append(("module-ns", 3, False, 2 if q else 3))
    out.append(("first-use", 2, True, 1 if q else 2))  # freshly imported library per execution, every line of filters.py / util.py
    if not q:
        out.append(("first-use", 3, True, 1))
    out.append(("compile", 2, False, 1 if q else 2))
    out.append(("compile-blocks", 2, True, 1 if q else 2))
    out.append(("compile-calls", 2, True, 1))
    if not q:
        out.append(("compile-calls-wide", 2, True, 1))
        out.append(("compile-calls", 3, True, 1))
    if not q:
        out.append(("compile", 2, True, 1))
        out.append(("render", 3, True, 1))
        out.append(("render-lru", 3, True, 1))
        out.append(("render-rt", 2, True, 2))  # lookup / cache / util lines only: a deeper bound is affordable
        out.append(("render-rt", 3, True, 2))
        out.append(("compile", 3, False, 1))
    return out


SPLIT_TOP = 24


def plan(tier, seed):
    jobs = []
    for h, n, fine, bound in specs(tier):
        spec = (h, n, fine)
        ex, viol = run_one(spec, [])
        ex2, _ = run_one(spec, list(ex.choices))
        det = [p["enabled"] for p in ex.points] == [p["enabled"] for p in ex2.points] and [
            (k, r[0]) for k, r in sorted(ex.results.items())
        ] == [(k, r[0]) for k, r in sorted(ex2.results.items())]
        firsts = sched.first_level(ex, bound)
        jobs.append({"spec": spec, "bound": bound, "root": True, "prefixes": [[]], "det": det, "points": len(ex.points), "w": 0})
        heavy = tier != "quick" and ((n >= 3 and (bound is None or bound >= 3)) or (fine and (bound is None or bound >= 2)) or (n >= 3 and fine))
        # (only the SPLIT_TOP largest first-level sub-trees are split: planning runs one execution per split sub-tree)
        big = set(map(tuple, sorted(firsts, key=len)[:SPLIT_TOP])) if heavy else set()
        for pre in firsts:
            # one job per first-level sub-tree; earlier branch points have larger sub-trees: start them first
            w = (len(ex.points) - len(pre)) * (3 if n > 2 else 1)
            if tuple(pre) not in big:
                jobs.append({"spec": spec, "bound": bound, "root": False, "prefixes": [pre], "w": w})
                continue
            # deep specifications: one job per SECOND-level sub-tree (the first-level execution itself is a job of its own),
            # otherwise a handful of early sub-trees keep single workers busy long after the others have finished
            exp, _ = run_one(spec, pre)
            jobs.append({"spec": spec, "bound": bound, "root": False, "single": True, "prefixes": [pre], "w": 0})
            for pre2 in sched.first_level(exp, bound, prefix_len=len(pre)):
                jobs.append({"spec": spec, "bound": bound, "root": False, "prefixes": [pre2], "w": (len(exp.points) - len(pre2)) * (3 if n > 2 else 1)})
    jobs.sort(key=lambda j: -j["w"])
    return jobs


def run_job(job):
    st = Stats()
    spec = tuple(job["spec"])
    bound = job["bound"]
    label = "%s/%dthr/%s/b=%s" % (spec[0], spec[1], "fine" if spec[2] else "coarse", bound)
    outcomes = st.outcomes

    def one(prefix):
        ex, viol = run_one(spec, prefix)
        st.evaluations += 1
        st.traces += 1
        st.states += 1
        st.transitions += len(ex.points)
        if any(p["running_enabled"] and p["chosen"] != 0 for p in ex.points):
            st.nontrivial += 1  # at least one preemption
        key = (spec[0], tuple((k, r[0], _outcome(r)) for k, r in sorted(ex.results.items())))
        outcomes[str(key)] += 1
        for sig, oracle, exp, obs in viol:
            st.violation(sig, {"spec": list(spec), "choices": list(ex.choices)}, oracle, expected=exp, observed=obs)
        if st.evaluations % 997 == 3:
            st.sample({"harness": label, "choices": "".join(str(c) for c in ex.choices), "points": len(ex.points)})
        return ex

    if job["root"]:
        ex = one([])
        st.extra.setdefault("harness_points", {})[label] = job["points"]
        st.sample({"harness": label, "choices": "".join(str(c) for c in ex.choices), "points": len(ex.points)})
        if not job["det"]:
            st.extra.setdefault("harness_errors", []).append("replay of the first schedule of %s diverged" % label)
        return st
    n_total = 0
    import time as _time

    t0 = _time.process_time()
    for pre in job["prefixes"]:
        if job.get("single"):
            one(pre)
            n_total += 1
            continue
        n, capped = sched.explore(lambda p: one(p), lambda x: None, bound, prefix=pre, max_execs=200000)
        n_total += n
        if capped:
            st.exhaustive = False
            st.caps.append("%s: execution cap hit below prefix %s" % (label, pre))
    st.extra.setdefault("executions", {})[label] = n_total + st.extra.get("executions", {}).get(label, 0)
    st.extra.setdefault("cpu_s", {})[label] = round(_time.process_time() - t0, 1)
    return st


def _outcome(r):
    if r[0] == "ok":
        v = r[1]
        if isinstance(v, (str, tuple)):
            return str(v)[:60]
        if isinstance(v, list):
            return [_render(t) for t in v]
        if hasattr(v, "render"):
            return _render(v)
        return type(v).__name__
    if r[0] == "exc":
        return type(r[1]).__name__
    return r[0]


def replay(case):
    spec = tuple(case["spec"])
    ex, viol = run_one(spec, case["choices"])
    if viol:
        return False, "reproduced: %r" % (viol[0],)
    return True, "holds"
