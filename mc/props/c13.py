"""C13 - an exception at any point of a render leaves the render state consistent.

Engine E3 + E1: every program of a bounded grammar over the stateful constructs
is instrumented with a probe at every position; the program is compiled once
per handler configuration and rendered once per crash point (armed probe) and
handler (% try levels are part of the program; error_handler,
include_error_handler, the caller of render_context, none, none +
format_exceptions are configurations).  Every render is compared with a
reference interpreter of the IR that uses Python's own try/finally.
"""

import io
import time

from mc import core
from mc.core import Stats
from mc import c13_env as env
from mc import c13_ir as ir
from mc import c13_ref as ref

PROPERTY = "C13"
LEVEL = "fault_enumeration"
ENGINE = "E3+E1"
TECHNIQUE = (
    "bounded exhaustive enumeration of template programs over the stateful constructs x every probe position as the "
    "raise point x every handler, each rendered on the real code and compared with a try/finally reference interpreter"
)
RULE = (
    "Programs: every statement tree of the C13 grammar (text, % try/% except Boom, % for with loop, % for without loop, a def declared and "
    "called [flags: every subset of buffered/filter/cached/decorator without cached+decorator; forms ${d(A)}, "
    "${capture(d, A)}, <%call expr=d(A)> with content; top-level or nested], <%call> of a Python function under "
    "supports_caller, <%text filter>, <%include>, two-level inherit, ${CB(caller)}, and in F1 a re-entrant fault-free render() of the same Template ${RR(context)}) in the families F1 = weight<=W1 with "
    "weight = nodes + def modifiers (each flag, nested, capture); F2 = nodes<=W2 with every flag subset at no extra cost; "
    "F3 (thorough) = nodes==W3 with <=1 flag per def over text/try/for/call/py/include/inherit; FT = every F2-shaped program of WT nodes with one stateful statement "
    "(at any depth, one at a time) wrapped in % try. Families are made disjoint (F2,F3,FT minus F1 ...). The finaliser "
    "inserts a probe before/after every statement and in every argument list, % for iterable expression, def/text filter, decorator (before and "
    "after the call), cached body and supports_caller function, and observers of loop/caller/a fresh def call after "
    "every % try. Case = (program, include_error_handler off/True/False, set of armed probes: none, each single probe, "
    "each pair for programs of weight<=WP, and for programs of weight<=WB1, or <=WB2 with a % try or <%include>, each single probe raising the BaseException-only kind, and for programs of weight<=WK each single probe raising each of the 7 "
    "exception families OSError(FileNotFoundError)/KeyError/AttributeError/TypeError/StopIteration/UnicodeError/RuntimeError, all also Boom); canonical = printed files + armed set; cases whose armed probes do not all "
    "fire and include_error_handler cases that do not differ from the off case are dropped as duplicates of a smaller "
    "case. Each case is run under every handler that applies: none (Template.render(), str mode; for weight<=WF also bytes mode with "
    "output_encoding), caller of render_context, "
    "error_handler returning True, and for programs of weight<=WF error_handler returning False and format_exceptions "
    "(render_unicode at every crash point; render() to bytes with output_encoding and render_context with the caller's "
    "Context at one crash point per distinct construct path and probe kind). "
    "Non-trivial = a probe fires inside >=1 stateful construct and something is written after the exception was "
    "handled (% try, include_error_handler or error_handler)."
)
ASSUMPTIONS = [
    "reference interpreter (mc/c13_ref.py, ~270 lines) implements DESIGN Appendix A rules A1,A3,A4,A7,A8 only; CPython try/finally, exec and str are trusted",
    "DONT_CARE (not generated): decorator+cached on one def (whether the decorator runs on a cache hit is not documented); capture() of a buffered def "
    "(it returns its text instead of writing it); % for inside call content or nested defs (which loop stack they share is not fixed by A4); "
    "<%def> declared inside <%call> content; includes nested deeper than 1; content of the format_exceptions page beyond error name and message",
    "side-effect counter: every probe counts how often it is reached (armed or not); after each render the counts must equal the reference's "
    "(a section that runs twice or not at all is a violation); the propagated exception must be the raised object, of its class, with "
    "__context__ None when one probe is armed; the failing and the follow-up render use the same API (render() in the none/bytes/declining-handler "
    "configurations, render_unicode() in the error_handler/error page ones)",
    "cache backend is the harness's dict backend (one store per Template); only the set of keys is compared after every render "
    "(a raise in a creation function must leave no entry), stored values are checked through the output of later hits",
    "format_exceptions / error_handler-returns-False are run at every crash point only for programs of weight<=WF: _render_error runs after every "
    "finally clause has run and replaces the buffer stack, so it cannot depend on where the exception came from (html_error_template costs 8 ms per render)",
    "two raise kinds: Boom(Exception) everywhere; BoomBase(BaseException, constructor needs arguments) at every probe of the programs of weight<=WB1 and of those of weight<=WB2 "
    "that contain a % try or an <%include> (the only except sites inside a render), one per render, "
    "under none / render_context / error_handler returning False / include_error_handler True and False - nothing in a render may catch it; <%block>, <%page> flags, namespace-call "
    "spellings and expression filters are not in the grammar (they emit the same try/finally sites as nested/top-level defs and <%call>)",
    "the design's bound W=5/7 over the full flag set is infeasible (1.1e6 programs at modifier-weight 5): the bounds reported are what is enumerated completely",
]
BOUNDS = {
    "quick": {"prologue": "exception while a section is entered (strict_undefined name, raising default of a nested def, missing namespace file) x 5 section flavours x {top-level, nested} x 3 call forms x 3 handlers; include set-up failures x 3 placements x 4 handlers; each twice", "W1_modifier_weight": 3, "W2_nodes_all_flags": 2, "W2_root_body": "one statement", "WT_wrapped_nodes": 2, "WT_flags": "<=1 per def", "WP_pairs": 2, "WF_error_page_all_points": 2, "WB1_base_kind_all": 2, "WB2_base_kind_try_or_include": 3, "WK_exception_families": 2, "for_iterations": 2},
    "thorough": {"W1_modifier_weight": 4, "W2_nodes_all_flags": 2, "W3_nodes_single_flags": 3, "WT_wrapped_nodes": 2, "WT_flags": "every subset", "WP_pairs": 3, "WF_error_page_all_points": 3, "WB1_base_kind_all": 3, "WB2_base_kind_try_or_include": 4, "WK_exception_families": 3, "for_iterations": 2},
}
LEVEL_TEXT = (
    "Every program of the stated grammar within the bounds is rendered by the real code once per crash point and handler; output after the "
    "handled exception, identity of the propagated exception, Context stacks after render_context, cache keys, the error page and a second "
    "render of the same Template are compared with the reference. Complete within the bounds; no sampling."
)
LEVEL_NOTE = "Trusted: CPython exec/try-finally/str, the reference interpreter, the harness dict cache backend. Crash points are Python exceptions raised by probes (statement, argument, filter, decorator, cached body, supports_caller function), one or two per render."
READY = True

LETTER_POOLS = [
    "abcdefghijklmnopqrstuvwxyz",
    "ABCDEFGHIJKLMNOPQRSTUVWXYZ",
    "éßж中àüλдñø",
    "kq\U0001d11ezéw\U0001f600hj",
]

MODES_ESC = ("plain", "rc", "eh", "ehf", "fe", "feb", "ferc", "pb")
MODES_FAMILY = ("plain", "rc", "eh")  # the exception families: none, caller of render_context, error_handler returning True
WORLD_OF = {"rc": "plain", "ferc": "fe"}  # modes that use the templates of another mode
MODES_OK = ("plain", "rc", "pb")
MODES_BASE = ("plain", "rc", "ehf")  # BaseException-only raise kind: none, caller of render_context, error_handler returning False


def letters(seed):
    return LETTER_POOLS[seed % len(LETTER_POOLS)]


# --------------------------------------------------------------------------
# families


def modweight(x):
    """nodes + def modifiers (the F1 weight)"""
    if isinstance(x, tuple):
        if x and isinstance(x[0], str) and x[0] in ir.NODE_KINDS:
            w = 1
            if x[0] == "call":
                w += len(x[2]) + (x[3] == "nested") + (x[1] == "cap")
            return w + sum(modweight(y) for y in x[1:] if isinstance(y, tuple))
        return sum(modweight(y) for y in x)
    return 0


F2_KINDS = tuple(k for k in ir.NODE_KINDS if k != "rr")  # the re-entrant render is a leaf of F1 only
F3_KINDS = ("text", "try", "for", "call", "inc", "inh", "py")  # F3 and the quick FT source: without the leaves cb, textf and plain loops
_GRAMMARS = {}


def base_kind_applies(skel, b):
    """which programs get the BaseException-only raise kind at every probe: all up to WB1; up to WB2 those with an
    `except` site of their own (% try, <%include> with its handler) - elsewhere only finally clauses are passed, which
    do not depend on the exception class"""
    mw = modweight(skel)
    if mw <= b["WB1_base_kind_all"]:
        return True
    if mw <= b["WB2_base_kind_try_or_include"]:
        ks = ir.kinds_of(skel)
        return "try" in ks or "inc" in ks
    return False


def grammar(fam):
    g = _GRAMMARS.get(fam)
    if g is None:
        if fam == "F1":
            g = ir.Grammar(ir.ALL_FLAGS, modcost=True)
        elif fam == "F2":
            g = ir.Grammar(ir.ALL_FLAGS, kinds=F2_KINDS)
        elif fam == "F3":
            g = ir.Grammar(ir.SINGLE_FLAGS, kinds=F3_KINDS)
        _GRAMMARS[fam] = g
    return g


def singleflag(x):
    if isinstance(x, tuple):
        if x and x[0] == "call" and len(x[2]) > 1:
            return False
        return all(singleflag(y) for y in x)
    return True


WRAPPABLE = ("call", "for", "inc", "inh", "textf", "py")


def wraps(block):
    """every copy of the statement list `block` in which exactly one stateful statement (at any depth) is wrapped in % try"""
    for i, s in enumerate(block):
        if s[0] in WRAPPABLE:
            yield block[:i] + (("try", (s,), ()),) + block[i + 1 :]
        for j in range(1, len(s)):
            sub = s[j]
            if isinstance(sub, tuple):  # a statement list (flags/form/where are strings, content may be None)
                for v in wraps(sub):
                    yield block[:i] + (s[:j] + (v,) + s[j + 1 :],) + block[i + 1 :]


def family_groups(tier):
    """[(family, nodes-or-weight)]"""
    b = BOUNDS[tier]
    out = [("F1", w) for w in range(1, b["W1_modifier_weight"] + 1)]
    out += [("F2", w) for w in range(1, b["W2_nodes_all_flags"] + 1)]
    if "W3_nodes_single_flags" in b:
        out += [("F3", b["W3_nodes_single_flags"])]
    out += [("FT", b["WT_wrapped_nodes"])]
    return out


def skeletons(fam, w, tier):
    b = BOUNDS[tier]
    w1 = b["W1_modifier_weight"]
    w2 = b["W2_nodes_all_flags"]
    single_root = tier == "quick"  # F2 in the quick tier: programs whose root body is one statement

    def in_f1(p):
        return modweight(p) <= w1

    def in_f2(p):
        return ir.weight(p) <= w2 and (len(p) == 1 or not single_root)

    def in_f3(p):
        return ir.weight(p) == b.get("W3_nodes_single_flags") and singleflag(p)

    if fam == "F1":
        return grammar("F1").programs(w)
    if fam == "F2":
        return [p for p in grammar("F2").programs(w) if in_f2(p) and not in_f1(p)]
    if fam == "F3":
        return [p for p in grammar("F3").programs(w) if not in_f1(p)]
    if fam == "FT":
        # quick: wraps of the programs with <=1 flag per def; thorough: of the programs with every flag subset
        src = grammar("F3" if tier == "quick" else "F2").programs(w)
        out = []
        for p in src:
            for v in wraps(p):
                if not (in_f1(v) or in_f2(v) or in_f3(v)):
                    out.append(v)
        return out
    raise ValueError(fam)


# --------------------------------------------------------------------------
# running one program


class World:
    """the real templates of one program under one handler configuration"""

    def __init__(self, texts, mode, ieh):
        from mako.lookup import TemplateLookup

        kw = {"imports": list(env.IMPORTS), "cache_impl": env.CACHE_IMPL}
        if mode == "eh":
            kw["error_handler"] = env.EH
        elif mode == "ehf":
            kw["error_handler"] = env.EHF
        elif mode == "fe":
            kw["format_exceptions"] = True
        elif mode == "feb":
            kw["format_exceptions"] = True
            kw["output_encoding"] = "utf-8"  # render() returns bytes: the other branch of _render_error
        elif mode == "pb":
            kw["output_encoding"] = "utf-8"  # render() to bytes, no handler
        if ieh:
            kw["include_error_handler"] = env.IEHF if ieh == "F" else env.IEH
        self.lookup = TemplateLookup(**kw)
        for uri, text in texts.items():
            self.lookup.put_string(uri, text)
        self.main = self.lookup.get_template("/main")
        self.uris = sorted(texts)

    def clear_caches(self):
        for uri in self.uris:
            self.lookup.get_template(uri).cache.impl.store.clear()

    def cache_keys(self):
        out = {}
        for uri in self.uris:
            k = sorted(self.lookup.get_template(uri).cache.impl.store)
            if k:
                out[uri] = k
        return out


def has_cached(prog):
    return any(d["c"] for d, _ in ir.all_defs(prog).values())


RENDER_API = ("plain", "pb", "feb", "ehf")  # modes whose renders go through Template.render(); the others use render_unicode()


def _render(t, mode, T):
    if mode in RENDER_API:
        out = t.render(T=T)
        if isinstance(out, bytes) != (mode in ("pb", "feb")):
            raise TypeError("render() returned %s in mode %s" % (type(out).__name__, mode))
        return out.decode("utf-8", "replace") if isinstance(out, bytes) else out
    return t.render_unicode(T=T)


def run_mode(world, mode, targets, r1, r2, cached):
    """execute one (case, mode) on the real code; returns list of (oracle, message, expected, observed)"""
    from mako.runtime import Context

    bad = []
    nrender = 0
    if cached:
        world.clear_caches()
    del env.RAISED[:]
    env.VISITS.clear()
    t = world.main
    T = list(targets)
    exc = None
    out = None
    ctx = buf = None
    try:
        nrender += 1
        if mode == "rc":
            buf = io.StringIO()
            ctx = Context(buf, T=T)
            t.render_context(ctx)
            out = buf.getvalue()
        elif mode == "ferc":
            # format_exceptions with a Context and buffer of the caller: the page can only be in the Context's current buffer
            buf = io.StringIO()
            ctx = Context(buf, T=T)
            t.render_context(ctx)
            out = ctx._buffer_stack[-1].getvalue()
            if isinstance(out, bytes):
                out = out.decode("utf-8", "replace")
        elif mode == "feb":
            out = t.render(T=T)
            if not isinstance(out, bytes):
                bad.append(("fe-bytes", "render() with output_encoding does not return bytes", "bytes", type(out).__name__))
                return bad, nrender
            out = out.decode("utf-8", "replace")
        else:
            out = _render(t, mode, T)
    except (env.Boom, env.BoomBase) as e:
        exc = e
    except Exception as e:  # noqa
        bad.append(("foreign-exception", "first render raises %s" % type(e).__name__, None, "%s: %s" % (type(e).__name__, str(e)[:200])))
        return bad, nrender
    esc = r1["escaped"]
    if mode in ("plain", "rc", "ehf", "pb"):
        if esc is None:
            if exc is not None:
                bad.append(("handled", "exception handled inside the template propagates", r1["out"], "Boom(%r)" % (exc.args[:1],)))
            elif out != r1["out"]:
                bad.append(("output", "output after the handled exception differs", r1["out"], out))
        else:
            if exc is None:
                bad.append(("propagate", "unhandled exception does not propagate", "Boom(%d)" % esc, out))
            elif not (
                env.RAISED
                and exc is env.RAISED[-1]
                and exc.args == (esc, "kaboom#%d" % esc)
                and type(exc) is (env.BoomBase if r1["base"] else env.KIND_CLASSES[r1["kind"]])
            ):
                bad.append(("identity", "a different exception object propagates", "%s(%d)" % ("BoomBase" if r1["base"] else env.KIND_NAMES[r1["kind"]], esc), repr(exc)))
            elif len(targets) == 1 and exc.__context__ is not None:
                bad.append(("identity", "the propagated exception was raised again while another one was handled (__context__ set)", None, repr(exc.__context__)))
        if mode == "rc" and not bad:
            # state of the Context after render_context returned or raised
            st = (len(ctx._buffer_stack), ctx._buffer_stack[0] is buf, len(ctx.caller_stack), ctx.caller_stack.nextcaller)
            if st != (1, True, 0, None):
                bad.append(("rc-state", "Context stacks differ from their values on entry", [1, True, 0, None], list(st[:3]) + [repr(st[3])]))
            else:
                ctx.write("tail")
                got = buf.getvalue()
                if got != r1["out"] + "tail":
                    bad.append(("rc-tail", "text written directly before the exception / after it is not in the caller's buffer", r1["out"] + "tail", got))
    elif mode == "eh":
        if exc is not None:
            bad.append(("eh", "error_handler returned True but the exception propagates", r1["out"] + "[EH]", repr(exc)))
        elif out != r1["out"] + "[EH]":
            bad.append(("eh-output", "output with error_handler differs (direct text + handler text expected)", r1["out"] + "[EH]", out))
    elif mode in ("fe", "feb", "ferc"):
        if exc is not None:
            bad.append(("fe", "format_exceptions set but the exception propagates", "error page", repr(exc)))
        elif not ("Boom" in out and "kaboom#%d" % esc in out):
            bad.append(("fe-page", "error page does not name the exception", "Boom ... kaboom#%d" % esc, out[:300]))
    if not bad and env.VISITS != r1["visits"]:
        # side-effect counter: every construct is entered exactly as often as the reference enters it
        d = {k: (r1["visits"].get(k, 0), env.VISITS.get(k, 0)) for k in set(env.VISITS) | set(r1["visits"]) if env.VISITS.get(k, 0) != r1["visits"].get(k, 0)}
        bad.append(("visits", "a probe is reached a different number of times (a section ran twice / not at all)", "probe: (expected, observed)", repr(sorted(d.items())[:6])))
    if cached and not bad:
        k = world.cache_keys()
        if k != r1["cache"]:
            bad.append(("cache-keys", "cache entries after the render differ", r1["cache"], k))
    if bad or mode == "rc":
        return bad, nrender  # (the failing path of render_context is the one of render_unicode: second render checked there)
    # the Template can be rendered again with correct results (through the API the failed render used)
    env.VISITS.clear()
    try:
        nrender += 1
        out2 = _render(t, mode, [])
    except Exception as e:  # noqa
        bad.append(("second-render", "second render raises %s" % type(e).__name__, r2["out"], "%s: %s" % (type(e).__name__, str(e)[:200])))
        return bad, nrender
    if out2 != r2["out"]:
        bad.append(("second-render", "second render of the same Template differs", r2["out"], out2))
    elif env.VISITS != r2["visits"]:
        bad.append(("visits", "second render: a probe is reached a different number of times", repr(sorted(r2["visits"].items())[:8]), repr(sorted(env.VISITS.items())[:8])))
    elif cached and world.cache_keys() != r2["cache"]:
        bad.append(("cache-keys", "cache entries after the second render differ", r2["cache"], world.cache_keys()))
    return bad, nrender


def reference(prog, ieh, targets):
    R = ref.Ref(prog, ieh=ieh)
    r1 = R.render(targets)
    r1["cache"] = R.cache_keys()
    r1["visits"] = R.visits
    R.visits = {}
    r2 = R.render([])
    r2["cache"] = R.cache_keys()
    r2["visits"] = R.visits
    return r1, r2


def make_sig(oracle, mode, ieh, r1):
    """footprint: the oracle, who handles the exception, and what kind of crash point it is (not where: one defect
    shows at every position inside the construct it breaks)"""
    if r1["raised"]:
        how = r1["handled"][-1] if (r1["escaped"] is None and r1["handled"]) else mode
        if ieh == "F":
            how = "ieh-returns-False"
        pk = r1["pkinds"][-1].split("[")[0]
        if pk in ("stmt", "arg"):
            pk = "body"
        if r1.get("base"):
            pk += ":BaseException"
        elif r1.get("kind"):
            pk += ":" + env.KIND_NAMES[r1["kind"]]
        return "%s|%s|%s" % (oracle, how, pk)
    return "%s|%s|no raise" % (oracle, mode)


def is_nontrivial(r1, mode):
    if not r1["raised"]:
        return False
    if not any(r1["inside"]):
        return False
    if r1["escaped"] is None:
        return r1["after"] > 0
    return mode == "eh"


class Runner:
    def __init__(self, st, seed):
        self.st = st
        self.seed = seed
        self.seen = set()

    def program(self, skel, pairs, fe_all, base_kind=False, fam_kinds=False):
        st = self.st
        prog = ir.finalise(skel, letters(self.seed))
        texts = ir.print_program(prog)
        key = tuple(sorted(texts.items()))
        if key in self.seen:
            st.extra["duplicate_programs"] = st.extra.get("duplicate_programs", 0) + 1
            return
        self.seen.add(key)
        st.extra["programs"] = st.extra.get("programs", 0) + 1
        for k in prog["kinds"]:
            d = st.extra.setdefault("construct_kinds", {})
            d[k] = d.get(k, 0) + 1
        n = prog["nprobes"]
        st.extra["probes"] = st.extra.get("probes", 0) + n
        cached = has_cached(prog)
        hasinc = "inc" in prog["kinds"]
        tsets = [()] + [(i,) for i in range(1, n + 1)]
        if pairs:
            tsets += [(i, j) for i in range(1, n + 1) for j in range(i + 1, n + 1)]
        if base_kind:
            tsets += [(-i,) for i in range(1, n + 1)]
        if fam_kinds:
            tsets += [(i + 1000 * k,) for k in range(1, len(env.KIND_CLASSES)) for i in range(1, n + 1)]
        # reference first (cheap): which cases exist, and which of them gets the format_exceptions run
        cases = []
        for targets in tsets:
            base = None
            for ieh in (False, True) if hasinc else (False,):
                r1, r2 = reference(prog, ieh, targets)
                if r1["left"]:
                    st.extra["unreached_dropped"] = st.extra.get("unreached_dropped", 0) + 1
                    break
                if not ieh:
                    base = (r1["out"], r1["escaped"], r2["out"])
                    base_r = (r1, r2)
                elif (r1["out"], r1["escaped"], r2["out"]) == base:
                    if r1["base"] and any("inc" in p for p in r1["inside"]):
                        # a BaseException raised under an <%include>: neither kind of include_error_handler may see it
                        cases.append((targets, True, r1, r2))
                        cases.append((targets, "F", r1, r2))
                    else:
                        st.extra["ieh_same_dropped"] = st.extra.get("ieh_same_dropped", 0) + 1
                    continue
                cases.append((targets, ieh, r1, r2))
                if ieh:
                    # the handler is reached: with a handler that returns False the case must behave as without handler
                    cases.append((targets, "F", base_r[0], base_r[1]))
        worlds = {}
        fe_seen = set()
        for ci, (targets, ieh, r1, r2) in enumerate(cases):
            st.states += 1
            nt = False
            if r1["base"]:
                modes = ("plain",) if ieh else MODES_BASE
            elif ieh == "F":
                modes = ("plain",)
            elif r1["kind"]:
                modes = MODES_FAMILY if r1["escaped"] is not None else MODES_OK
            else:
                modes = MODES_ESC if r1["escaped"] is not None else MODES_OK
            for mode in modes:
                if mode in ("fe", "ehf") and not (fe_all or r1["base"]):
                    continue
                if mode == "pb" and not (fe_all and len(targets) <= 1 and not r1["kind"]):
                    continue
                if mode in ("feb", "ferc"):
                    # bytes / caller's Context variants of the error page: one crash point per distinct construct path and probe kind
                    k = (mode, ieh, tuple(r1["inside"][-1]), r1["pkinds"][-1])
                    if not (fe_all and len(targets) == 1) or k in fe_seen:
                        continue
                    fe_seen.add(k)
                wk = (WORLD_OF.get(mode, mode), ieh)
                w = worlds.get(wk)
                if w is None:
                    try:
                        w = worlds[wk] = World(texts, wk[0], ieh)
                    except Exception as e:  # noqa
                        st.extra.setdefault("harness_errors", []).append(
                            "program does not compile: %s: %s\n%r" % (type(e).__name__, str(e)[:300], texts)
                        )
                        return
                bad, nr = run_mode(w, mode, targets, r1, r2, cached)
                st.evaluations += nr
                st.transitions += nr
                st.traces += 1
                st.oracles[mode] += 1
                nt = nt or is_nontrivial(r1, mode)
                cls = (
                    mode,
                    ("escaped-base" if r1["base"] else "escaped") if r1["escaped"] is not None else ("handled:" + ",".join(sorted(set(r1["handled"]))) if r1["raised"] else "noraise"),
                    len(r1["raised"]),
                )
                st.outcomes[cls] += 1
                for oracle, msg, exp, obs in bad:
                    case = {"skel": skel, "targets": list(targets), "ieh": ieh, "mode": mode, "seed": self.seed, "files": texts}
                    st.violation(make_sig(oracle, mode, ieh, r1), case, oracle + ": " + msg, expected=exp, observed=obs)
            if nt:
                st.nontrivial += 1
            if st.states % 2503 == 1:
                st.sample({"files": texts, "targets": list(targets), "ieh": ieh, "expected": r1["out"], "escaped": r1["escaped"]})


# --------------------------------------------------------------------------
# jobs

CHUNK = {"quick": 140, "thorough": 2500}


def plan(tier, seed):
    jobs = []
    for fam, w in family_groups(tier):
        n = len(skeletons(fam, w, tier))
        ns = max(1, -(-n // CHUNK[tier]))
        for sh in range(ns):
            jobs.append({"tier": tier, "seed": seed, "fam": fam, "w": w, "shard": sh, "nshards": ns})
    jobs.append({"tier": tier, "seed": seed, "fam": "prologue", "w": 0, "shard": 0, "nshards": 1})
    # heavier groups first; the seed rotates the order
    jobs.sort(key=lambda j: (-j["w"], j["fam"], j["shard"]))
    k = seed % max(1, len(jobs))
    return jobs[k:] + jobs[:k]


def run_prologue(st):
    from mc import c13_prologue as P

    n = 0
    for c in P.cases():
        r = P.run(c)
        if r == "skip":
            continue
        n += 1
        st.states += 1
        st.traces += 1
        st.evaluations += 2
        st.transitions += 2
        st.nontrivial += 1
        st.oracles["prologue"] += 1
        st.outcomes[("prologue", c["kind"], c["handler"], "ok" if r is None else "bad")] += 1
        if r is not None:
            st.violation(r[0], c, r[1], expected=r[2], observed=r[3])
        if n % 61 == 1 and c["kind"] != "nested-render":
            st.sample({"family": "prologue", "case": c, "files": P.build(c)[0]})
    st.extra["prologue_cases"] = n


def run_job(job):
    st = Stats()
    if job.get("fam") == "prologue":
        run_prologue(st)
        return st
    t0 = time.process_time()
    w0 = time.time()
    try:
        env.register()
        b = BOUNDS[job["tier"]]
        sk = skeletons(job["fam"], job["w"], job["tier"])
        run = Runner(st, job["seed"])
        for idx in range(job["shard"], len(sk), job["nshards"]):
            s = sk[idx]
            run.program(s, modweight(s) <= b["WP_pairs"], modweight(s) <= b["WF_error_page_all_points"], base_kind_applies(s, b), modweight(s) <= b["WK_exception_families"])
    finally:
        st.extra["cpu_s"] = round(time.process_time() - t0, 2)
        st.extra["worker_wall_s"] = round(time.time() - w0, 2)
    return st


# --------------------------------------------------------------------------


def _tuple(x):
    if isinstance(x, list):
        return tuple(_tuple(y) for y in x)
    return x


def replay(case):
    core.bind_repo()
    if case.get("fam") == "prologue":
        from mc import c13_prologue as P

        r = P.run(case)
        return (True, "holds") if r in (None, "skip") else (False, "reproduced: %r" % (r,))
    env.register()
    skel = _tuple(case["skel"])
    prog = ir.finalise(skel, letters(case.get("seed", 0)))
    texts = ir.print_program(prog)
    targets = tuple(case["targets"])
    r1, r2 = reference(prog, case["ieh"] is True, targets)
    mode = case["mode"]
    w = World(texts, WORLD_OF.get(mode, mode), case["ieh"])
    bad, _ = run_mode(w, mode, targets, r1, r2, has_cached(prog))
    if bad:
        return False, "reproduced: %r\nfiles=%r targets=%r" % (bad[0], texts, targets)
    return True, "holds"


# --------------------------------------------------------------------------
# corpus for the cross-path property


def corpus(limit=400):
    """representative programs of the smallest non-trivial bound (F1 with modifier weight <= 3, then the % try wraps of the
    2-node programs), simplest first, round-robin over (construct kind, has % try); each with a crash point that is handled
    inside the template when there is one (else the fault-free render).  Programs whose output would be empty are skipped.
    template_kwargs need `mc.c13_env` importable; cache_impl 'c13dict' registers itself through the imports line."""
    seed = 0
    by_kind = {}
    order = []
    srcs = [grammar("F1").programs(w) for w in (1, 2, 3)] + [skeletons("FT", 2, "quick")]
    for src in srcs:
        for skel in src:
            ks = ir.kinds_of(skel)
            if "rr" in ks:
                continue  # needs a lookup that knows "/main": not for the cross-path corpus
            kinds = [k for k in sorted(ks) if k not in ("text", "try", "where:top", "call:expr", "flag:-", "call")]
            for k in kinds or ["text"]:
                kk = (k, "try" in ks)
                if kk not in by_kind:
                    by_kind[kk] = []
                    order.append(kk)
                by_kind[kk].append(skel)
    out = []
    seen = set()
    idx = {k: 0 for k in order}
    live = list(order)
    while live and len(out) < limit:
        nxt = []
        for k in live:
            lst = by_kind[k]
            while idx[k] < len(lst):
                skel = lst[idx[k]]
                idx[k] += 1
                if skel in seen:
                    continue
                seen.add(skel)
                prog = ir.finalise(skel, letters(seed))
                # prefer a crash point handled inside the template with output afterwards; else the fault-free render
                pick = None
                for i in range(1, prog["nprobes"] + 1):
                    r1, _ = reference(prog, False, (i,))
                    if not r1["left"] and r1["escaped"] is None and any(r1["inside"]) and r1["after"]:
                        pick = ([i], r1["out"])
                        break
                if pick is None:
                    r1, _ = reference(prog, False, ())
                    pick = ([], r1["out"])
                if not pick[1].strip():
                    continue
                kw = {"imports": list(env.IMPORTS)}
                if has_cached(prog):
                    kw["cache_impl"] = env.CACHE_IMPL
                out.append(
                    {"files": ir.print_program(prog), "main": prog["main"], "ctx": {"T": pick[0]}, "expected": pick[1], "template_kwargs": kw}
                )
                break
            if idx[k] < len(lst):
                nxt.append(k)
            if len(out) >= limit:
                break
        live = nxt
    return out
