"""C07 - namespaces and includes reach other templates with the right context and URI.

Engine E1: exhaustive enumeration of bounded multi-file programs (mc/c07_ir.py),
each printed into Mako syntax, stored behind a real TemplateLookup (put_string,
one directory, two directories), rendered by the real code and compared with
the reference interpreter mc/c07_ref.py (DESIGN.md Appendix A6).

Grids (all complete within their bounds):
  g1 resolution : depth of the file holding the tag x URI spelling x mechanism x
                  where that file sits in the render (main / base / namespace def /
                  included) x target present or absent x backing
  g2 precedence : inline / file / inherited / imported / context / inheritable
                  presence combinations x import modes x probe positions
  g3 includes   : <%page> signature x args given x context names x includer shape
                  x include tag or include_file()
  g4 modules    : <%namespace module=..> plain and supports_caller callables
  g5 chains     : k successive hops (include / namespace def / inherit /
                  include_file / get_namespace), every file in every directory,
                  relative and absolute spellings
  g7 same name : one namespace name declared in two files of a render (includer + included, template +
                  namespace file, derived + base) at different depths, each resolving the same relative
                  spelling through it
  g8 several ns: two or three file namespaces per template, each library def probing its own self/local
  g9 mangled   : templates of one render whose URIs differ only in non-word characters (known finding) + control
  g6 crossed   : g1 x g3 (include args and context names at every depth, spelling, site)
"""

import functools
import hashlib
import itertools
import os
import re
import shutil
import time

from mc import core
from mc.core import Stats
from mc import c07_env as E
from mc import c07_ir as IR
from mc import c07_ref as R
from mc.c07_ir import File, Ns, Def, T

PROPERTY = "C07"
LEVEL = "model_checking"
ENGINE = "E1"
TECHNIQUE = (
    "bounded exhaustive enumeration of multi-file template sets (resolution, precedence, include-argument, "
    "module and hop-chain grids), each rendered through a real TemplateLookup and compared with an independent "
    "reference interpreter and a component-stack URI resolver"
)
RULE = (
    "a case = (set of printed template files, main URI, render context, backing store); canonical key = that tuple, "
    "de-duplicated. Enumerated: every combination of the grid parameters listed in BOUNDS. Non-trivial = the render "
    "crosses at least one template-to-template reference whose answer differs between two candidate rules "
    "(relative URI written in a file outside the root or outside the main template's directory; a name present in at "
    "least two of inline/file/inherited/import/context; include args and context both offering a <%page> argument or "
    "an includer with inheritance state; a module callable reached through import or call-with-content; a chain of >= 2 hops; "
    "two namespaces of one name in one render)."
)
ASSUMPTIONS = [
    "the reference interpreter (mc/c07_ref.py, ~600 lines) implements DESIGN.md Appendix A6 and the parts of A2/A3/A5 it needs; anything else is DONT_CARE",
    "URIs with '.' or '..' segments under put_string backing are DONT_CARE (the collection compares keys unnormalised by design): content or TemplateLookupException both accepted",
    "the text of Namespace.uri is compared modulo path normalisation (mako keeps '..' and the caller's spelling)",
    "self/local/parent/next inside a def written in a <%namespace> tag, names imported by the same file used inside such a def, the same name imported from two namespaces, extra include args without ** in <%page>, <%page args> on an included template that inherits: DONT_CARE",
    "a URI that leaves the lookup root counts as unresolvable (TemplateLookupException demanded; a decoy file is placed outside the root)",
    "an unresolvable URI inside a render must raise TemplateLookupException itself, not its TopLevelLookupException subclass (documented as the top-level-only class)",
    "CPython eval/exec/inspect, posix file system semantics are trusted",
]
BOUNDS = {
    "quick": {
        "g1": "depth 0..3 x 9 spellings x (9 written-in mechanisms x 4 sites + 3 namespace-relative mechanisms) x present/absent x put_string + one directory (odd depths) / two directories (even depths)",
        "g2": "2^5 presence combinations x inline def with/without context reference x 5 import modes x 6 probes (tag in the base) + 4 probes (tag in the derived template) + anonymous namespaces, put_string backing; inline-only namespaces; two <%namespace import=> tags on one line (6 name-less/named and named/star combinations x context competitors x 3 probes x tag in a plain template or in a base); imported def named f / max / format / id x import none/named/* x same-named context variable or not x strict_undefined off/on x read in body / top-level def / nested def / named block x plain or base template",
        "g3": "2 page signatures x 8 arg sets x 8 context sets x 4 includers x 2 mechanisms (+ inheriting targets) x 2 backings; include inside a def called by name / through self from a body whose value comes from <%page args> bound by an outer include, a top-level assignment, both, or a top-level-rendered body's assignment x render() supplies the name or not x required/defaulted target argument x args given or not x 2 names",
        "g4": "module namespace: 5 import modes x inline/context competitors x 7 probes",
        "g5": "chains of 1..2 hops x 5 mechanisms per hop x 3 directories per file x relative/absolute spelling, files backing (+ put_string for one-hop chains without dot segment); 3 hops x {include, namespace def, inherit} x 2 directories, relative",
        "g6": "g1 x g3: depth 0..3 x 3 spellings x 4 include mechanisms x sites x 4 arg sets x 4 context sets",
        "g8": "2 or 3 <%namespace file=> tags of one template pointing at libraries in different directories: every declaration order x call order as declared / reversed x 6 probes inside the library def (local.uri+self.uri, self.who()/local.who(), local.include_file, local.get_template, local.get_namespace, <%include>, all with a relative 't.html') x tag in a plain / derived / base template x 2 backings",
        "g9": "URI pairs that differ only in non-word characters (4 pairs, both orders) x {include, include first, namespace def, inherit}, each template declaring namespace 'n' with a different file; plus the control with a word-character difference; 2 backings",
        "g10": "histories on one lookup: 41 templates reaching one library (import=*, import=names, named, inline defs in the tag, inheritable, include, inherit, API): all ordered pairs a,b,a x 2 backings",
        "g7": "same namespace name 'h' declared in two files of one render: 12 ordered directory-depth pairs x {h.get_namespace, h.get_template, h.include_file, chained get_namespace} x {includer+included, template+namespace file, derived+base} x which call runs first x target beside both/first/second/neither x 2 backings",
    },
    "thorough": {
        "g1": "depth 0..3 x 15 spellings x (9 x 4 + 3) mechanisms x present/absent x 3 backings x main URI with/without leading slash (files)",
        "g2": "as quick + files backing + 3-level inheritance chain + import list spelled 'f ,k' + the whole presence grid under strict_undefined",
        "g3": "3 page signatures x 8 arg sets x 8 context sets x 4 includers x 2 mechanisms x 2 backings; def-called-from-body includes as quick",
        "g4": "as quick",
        "g5": "chains of 1..2 hops x 5 mechanisms x 4 directories, 3 hops x 5 mechanisms x 3 directories, 4 hops x 3 mechanisms x 2 directories, relative/absolute spelling; 5 hops (6 files) x 3 mechanisms and 7 hops (8 files) x mechanism vectors over {include, namespace def} with at most one change x 2 directories, relative",
        "g6": "g1 x g3: depth 0..3 x 5 spellings x 4 include mechanisms x sites x 4 arg sets x 8 context sets",
        "g7": "as quick x 3 spellings (t.html, sub/t.html, ../t.html)",
        "g8": "as quick",
        "g9": "as quick",
        "g10": "as quick",
    },
}
READY = True


# --------------------------------------------------------------------------
# alphabet


def alphabet(seed):
    i = seed % 4
    return {"dirs": E.POOL_DIR[i], "txt": E.POOL_TEXT[i], "vals": E.POOL_VAL[i]}


def has_dots(u):
    return isinstance(u, str) and any(c in (".", "..") for c in u.split("/"))


def spelling_class(sp):
    if not isinstance(sp, str):
        return "expr"
    comps = sp.split("/")
    if "gone.html" in comps:
        return "missing-abs" if sp.startswith("/") else "missing-rel"
    if sp.startswith("/"):
        return "abs"
    if ".." in comps:
        return "dotdot"
    if "." in comps:
        return "dot"
    if len(comps) > 1:
        return "rel-sub"
    return "rel"


def _const(x):
    return x


def target_file(key, tx):
    """generic target / decoy: a def, a body with a marker naming the directory it lives in, its own uri"""
    return File(
        defs=[Def("m", "", [T("[M:%s%s]" % (key, tx))]), Def("go", "", [T("[GO:%s]" % key)])],
        body=[T("[T:%s%s]" % (key, tx)), ["uri", "local"], ["block", "blk", [T("[BLK:%s]" % key)]]],
    )


# --------------------------------------------------------------------------
# g1: resolution

G1_SPELL_QUICK = ["t.html", "./t.html", "sub/t.html", "../t.html", "../../t.html", "/abs/t.html", "/t.html", "gone.html", "/abs/gone.html"]
G1_SPELL_MORE = ["sub/../t.html", "../sub/t.html", "./../t.html", "sub/./t.html", "/abs/../t.html", "/abs/./sub/t.html"]
G1_MECH_A = ["ns_tag", "include_tag", "inherit_tag", "get_namespace", "get_template", "include_file", "include_expr", "ns_tag_expr", "inherit_expr"]
G1_MECH_B = ["ns_get_namespace", "ns_get_template", "ns_include_file"]
G1_SITES = ["main", "base", "nsdef", "included"]


def g1_program(al, d, sp, mech, site, present, extra_args=None, page=None, ctx_extra=None):
    d1, d2, d3 = al["dirs"]
    tx = al["txt"]
    DIRS = ["", "/" + d1, "/%s/%s" % (d1, d2), "/%s/%s/%s" % (d1, d2, d3)]
    sdir = DIRS[d]
    S = sdir + "/c.html"
    mdir = "/m"
    ctx = dict(ctx_extra or {})
    files = {}
    incl_args = extra_args or ""
    if mech in G1_MECH_B:
        M = mdir + "/main.html"
        files[S] = File(defs=[Def("k", "", [T("[k]")])], body=[T("[S-body]")])
        if mech == "ns_get_namespace":
            st = [["get_ns", "n", sp, "body", ""], ["get_ns", "n", sp, "m", ""], ["get_ns", "n", sp, "blk", ""]]
        elif mech == "ns_get_template":
            st = [["get_tpl", "n", sp]]
        else:
            st = [["include_file", "n", sp, incl_args]]
        files[M] = File(ns=[Ns("n", file=S)], body=[T("<")] + st + [T(">")])
    else:
        ns, inherit = [], None
        if mech == "ns_tag":
            ns = [Ns("t", file=sp)]
            st = [["attr", "t", "body", ""], ["attr", "t", "m", ""], ["attr", "t", "blk", ""]]
        elif mech == "ns_tag_expr":
            ns = [Ns("t", file=["var", "u"])]
            ctx["u"] = sp
            st = [["attr", "t", "body", ""], ["attr", "t", "m", ""]]
        elif mech == "include_tag":
            st = [["include", sp, incl_args]]
        elif mech == "include_expr":
            ctx["u"] = sp
            st = [["include", ["var", "u"], incl_args]]
        elif mech == "inherit_tag":
            inherit = sp
            st = [T("[own-body]")]
        elif mech == "inherit_expr":
            inherit = ["var", "u"]
            ctx["u"] = sp
            st = [T("[own-body]")]
        elif mech == "get_namespace":
            st = [["get_ns", "local", sp, "body", ""], ["get_ns", "local", sp, "m", ""], ["get_ns", "local", sp, "blk", ""]]
        elif mech == "get_template":
            st = [["get_tpl", "local", sp]]
        elif mech == "include_file":
            st = [["include_file", "local", sp, incl_args]]
        else:
            raise ValueError(mech)
        st = [T("<")] + st + [T(">")]
        if site == "main":
            M = S
            files[S] = File(ns=ns, inherit=inherit, body=st)
        elif site == "base":
            M = mdir + "/main.html"
            files[S] = File(ns=ns, inherit=inherit, body=st)
            files[M] = File(inherit=S, body=[T("[main-body]")])
        elif site == "nsdef":
            M = mdir + "/main.html"
            if mech in ("inherit_tag", "inherit_expr"):
                files[S] = File(inherit=inherit, defs=[Def("go", "", [T("[go]")])])
                files[M] = File(ns=[Ns("s", file=S)], body=[T("<"), ["attr", "s", "m", ""], T(">")])
            else:
                files[S] = File(ns=ns, defs=[Def("go", "", st)], body=[T("[S-body]")])
                files[M] = File(ns=[Ns("s", file=S)], body=[["attr", "s", "go", ""]])
        elif site == "included":
            M = mdir + "/main.html"
            files[S] = File(ns=ns, inherit=inherit, body=st)
            files[M] = File(body=[T("{"), ["include", S, ""], T("}")])
        else:
            raise ValueError(site)
    # candidate targets: where the spelling lands under the right rule and under the plausible wrong ones
    right = None
    try:
        right = R.resolve(sp, S)
    except R.Lookup:
        pass
    cands = set()
    for base in (S, "/x.html", M, "/abs/x.html"):
        try:
            cands.add(R.resolve(sp, base))
        except R.Lookup:
            pass
    if not sp.startswith("/"):
        cands.add("/" + "/".join(c for c in sp.split("/") if c not in (".", "..")))
    for c in sorted(cands):
        if c.endswith("gone.html"):
            continue
        if c == right and not present:
            continue
        if c in files:
            continue
        key = c.rsplit("/", 1)[0] or "/"
        if page is not None:
            files[c] = File(page=page, body=[T("[T:%s%s a=" % (key, tx)), ["var", "a"], T(" b="), ["var", "b"], T(" c="), ["ctxget", "c"], T("]"), ["uri", "local"]])
        else:
            files[c] = target_file(key, tx)
    return files, M, ctx


def gen_g1(tier, al):
    spells = list(G1_SPELL_QUICK)
    if tier == "thorough":
        spells += G1_SPELL_MORE
    for d in range(4):
        for sp in spells:
            pres = (True, False) if "gone" not in sp else (False,)
            for present in pres:
                for mech in G1_MECH_A:
                    for site in G1_SITES:
                        meta = {"grid": "g1", "mech": mech, "site": site, "sp": spelling_class(sp), "d": d, "present": present}
                        yield meta, functools.partial(g1_program, al, d, sp, mech, site, present)
                for mech in G1_MECH_B:
                    meta = {"grid": "g1", "mech": mech, "site": "ns", "sp": spelling_class(sp), "d": d, "present": present}
                    yield meta, functools.partial(g1_program, al, d, sp, mech, "ns", present)


def gen_g6(tier, al):
    """g1 x g3: include args / context names at every depth, spelling and site"""
    v = al["vals"]
    if tier == "quick":
        spells = ["t.html", "../t.html", "/abs/t.html"]
        ctxsets = [(0, 0, 0), (1, 0, 1), (0, 1, 0), (1, 1, 1)]
    else:
        spells = ["t.html", "sub/t.html", "../t.html", "/abs/t.html", "./t.html"]
        ctxsets = list(itertools.product((0, 1), repeat=3))
    for d in range(4):
        for sp in spells:
            for mech in ("include_tag", "include_file", "include_expr", "ns_include_file"):
                for site in G1_SITES if mech not in G1_MECH_B else ["ns"]:
                    for args in ("", "a='%sarg'" % v[0], "b='%sarg'" % v[1], "a='%sarg', b='%sarg'" % (v[0], v[1])):
                        for cs in ctxsets:
                            cx = {}
                            if cs[0]:
                                cx["a"] = v[0] + "ctx"
                            if cs[1]:
                                cx["b"] = v[1] + "ctx"
                            if cs[2]:
                                cx["c"] = v[2] + "ctx"
                            meta = {"grid": "g6", "mech": mech, "site": site, "sp": spelling_class(sp), "d": d, "args": args, "ctx": sorted(cx)}
                            yield meta, functools.partial(g1_program, al, d, sp, mech, site, True, extra_args=args, page="a, b=2", ctx_extra=cx)


# --------------------------------------------------------------------------
# g2: precedence

G2_IMPORTS = [None, "f", "*", "k, f", "k"]
G2_PROBES = ["q_ns", "q_bare", "q_self", "q_def", "q_block", "q_derived_bare"]


def g2_program(al, I, F, P, C, H, iuse, imp, probe, levels=2, anon=False, where="base"):
    v = al["vals"]
    tx = al["txt"]
    ctx = {"x": v[0]}
    if C:
        ctx["f"] = "@helper:cf"
    xs = [T(":"), ["var", "x"]]
    inline = []
    if I:
        inline = [Def("f", "", [T("[I-f" + tx)] + (xs if iuse else []) + [T("]")])]
    nsfile = File(defs=[Def("k", "", [T("[F-k]")])] + ([Def("f", "", [T("[F-f" + tx)] + xs + [T("]")])] if F else []), body=[T("[nsfile-body]")])
    files = {}
    nsfile["inherit"] = "nsparent.html"
    pdefs = [Def("f", "", [T("[P-f" + tx)] + xs + [T("]")])] if P else [Def("other", "", [T("[P-other]")])]
    files["/p/lib/nsparent.html"] = File(defs=pdefs, body=[T("[nsparent-body]")])
    files["/p/lib/nsfile.html"] = nsfile
    nsd = Ns(None if anon else "ns", file="lib/nsfile.html", imp=imp, inheritable=H, inline=inline)
    base_body = [T("B(")]
    base_defs = []
    main_body = [T("M:")]
    if probe == "q_ns":
        base_body.append(["attr", "ns", "f", ""])
    elif probe == "q_bare":
        base_body.append(["call", "f", ""])
    elif probe == "q_def":
        base_defs.append(Def("dd", "", [T("d<"), ["call", "f", ""], T(">")]))
        base_body.append(["call", "dd", ""])
    elif probe == "q_block":
        base_body.append(["block", "blk", [T("b<"), ["call", "f", ""], T(">")]])
    elif probe == "q_self":
        main_body.append(["attr", "self.ns", "f", ""])
    elif probe == "q_derived_bare":
        main_body.append(["call", "f", ""])
    base_body += [["attr", "next", "body", ""], T(")")]
    if where == "derived":
        # the tag is written in the inheriting template itself; the probes run in its own body
        files["/p/base.html"] = File(body=[T("B("), ["attr", "next", "body", ""], T(")")])
        files["/p/main.html"] = File(inherit="base.html", ns=[nsd], defs=base_defs, body=[T("M:")] + base_body[1:-2] + main_body[1:])
        return files, "/p/main.html", ctx
    files["/p/base.html"] = File(ns=[nsd], defs=base_defs, body=base_body)
    if levels == 3:
        files["/p/mid.html"] = File(inherit="base.html", body=[T("mid("), ["attr", "next", "body", ""], T(")")])
        files["/p/main.html"] = File(inherit="mid.html", body=main_body)
    else:
        files["/p/main.html"] = File(inherit="base.html", body=main_body)
    return files, "/p/main.html", ctx


def gen_g2(tier, al):
    imports = G2_IMPORTS + (["f ,k"] if tier == "thorough" else [])
    for I, F, P, C, H in itertools.product((0, 1), repeat=5):
        for iuse in (0, 1) if I else (0,):
            for imp in imports:
                for probe in G2_PROBES:
                    for levels in (2, 3) if tier == "thorough" else (2,):
                        meta = {"grid": "g2", "I": I, "F": F, "P": P, "C": C, "H": H, "iuse": iuse, "imp": imp, "probe": probe}
                        yield meta, functools.partial(g2_program, al, I, F, P, C, H, iuse, imp, probe, levels)
                        if tier == "thorough" and levels == 2:
                            yield dict(meta, strict=1), functools.partial(g2_program, al, I, F, P, C, H, iuse, imp, probe, levels)
                    if not H and probe in ("q_ns", "q_bare", "q_def", "q_block"):
                        meta = {"grid": "g2", "I": I, "F": F, "P": P, "C": C, "H": H, "iuse": iuse, "imp": imp, "probe": probe, "where": "derived"}
                        yield meta, functools.partial(g2_program, al, I, F, P, C, H, iuse, imp, probe, 2, where="derived")
                    if imp is not None and not H and probe in ("q_bare", "q_def", "q_block", "q_derived_bare"):
                        # <%namespace> without a name: reachable through import only
                        meta = {"grid": "g2", "I": I, "F": F, "P": P, "C": C, "H": H, "iuse": iuse, "imp": imp, "probe": probe, "anon": 1}
                        yield meta, functools.partial(g2_program, al, I, F, P, C, H, iuse, imp, probe, 2, anon=True)
    # import= against context variables and builtins, with and without strict_undefined, read in the body,
    # a top-level def, a def nested in it, a named block
    v = al["vals"]
    for name in ("f", "max", "format", "id"):
        for imp in (None, name, "*"):
            for C in (0, 1):
                for strict in (0, 1):
                    for pos in ("body", "def", "nested", "block"):
                        for site in ("plain", "base"):
                            ctx = {"x": v[0]}
                            if C:
                                ctx[name] = "@helper:cf"
                            lib = File(defs=[Def(n_, "", [T("[F-%s:" % n_), ["var", "x"], T("]")]) for n_ in ("f", "max", "format", "id")], body=[T("[lib-body]")])
                            call = ["call", name, ""]
                            defs = []
                            if pos == "body":
                                st = [call]
                            elif pos == "def":
                                defs = [Def("dd", "", [T("d<"), call, T(">")])]
                                st = [["call", "dd", ""]]
                            elif pos == "nested":
                                defs = [Def("dd", "", [["ndef", Def("inner", "", [T("n<"), call, T(">")])], T("d<"), ["call", "inner", ""], T(">")])]
                                st = [["call", "dd", ""]]
                            else:
                                st = [["block", "blk", [T("b<"), call, T(">")]]]
                            nsd = Ns("ns", file="lib/l.html", imp=imp)
                            files = {"/s/lib/l.html": lib}
                            if site == "plain":
                                files["/s/main.html"] = File(ns=[nsd], defs=defs, body=[T("<")] + st + [T(">")])
                            else:
                                files["/s/base.html"] = File(ns=[nsd], defs=defs, body=[T("B<")] + st + [T(">("), ["attr", "next", "body", ""], T(")")])
                                files["/s/main.html"] = File(inherit="base.html", body=[T("M")])
                            meta = {"grid": "g2", "I": 0, "F": 1, "P": 0, "C": C, "H": 0, "iuse": 0, "imp": imp, "probe": "q_bare", "strict": strict, "name": name, "pos": pos}
                            yield meta, functools.partial(_const, (files, "/s/main.html", ctx))
    # several <%namespace> tags on one source line (the printer never breaks lines), two of them without a
    # name: each must contribute its own imports
    v = al["vals"]
    for kinds in (("anon:f", "anon:*"), ("anon:*", "anon:f"), ("anon:f", "named:*"), ("named:*", "anon:f"), ("anon:f", "anon:g"), ("anon:*", "anon:*")):
        for cf, cg in itertools.product((0, 1), repeat=2):
            for probe in ("f", "g", "def-both"):
                for site in ("plain", "base"):
                    ctx = {"x": v[0]}
                    if cf:
                        ctx["f"] = "@helper:cf"
                    if cg:
                        ctx["g"] = "@helper:cg"
                    files = {
                        "/q/lib/a.html": File(defs=[Def("f", "", [T("[A-f:"), ["var", "x"], T("]")])], body=[T("[a-body]")]),
                        "/q/lib/b.html": File(defs=[Def("g", "", [T("[B-g:"), ["var", "x"], T("]")])], body=[T("[b-body]")]),
                    }
                    nss = []
                    for i, kd in enumerate(kinds):
                        nm, imp = kd.split(":")
                        # first tag -> a.html (defines f), second -> b.html (defines g); a named import takes the def its file has
                        tgt, has = ("lib/a.html", "f") if i == 0 else ("lib/b.html", "g")
                        nss.append(Ns(None if nm == "anon" else "n%d" % i, file=tgt, imp="*" if imp == "*" else has))
                    defs = []
                    if probe == "f":
                        st = [["call", "f", ""]]
                    elif probe == "g":
                        st = [["call", "g", ""]]
                    else:
                        defs = [Def("dd", "", [["call", "f", ""], T("+"), ["call", "g", ""]])]
                        st = [["call", "dd", ""]]
                    if site == "plain":
                        files["/q/main.html"] = File(ns=nss, defs=defs, body=[T("<")] + st + [T(">")])
                    else:
                        files["/q/base.html"] = File(ns=nss, defs=defs, body=[T("B<")] + st + [T(">("), ["attr", "next", "body", ""], T(")")])
                        files["/q/main.html"] = File(inherit="base.html", body=[T("M")])
                    meta = {"grid": "g2", "I": 0, "F": 1, "P": 0, "C": cf or cg, "H": 0, "iuse": 0, "imp": "+".join(kinds), "probe": "q_bare", "one_line": 1}
                    yield meta, functools.partial(_const, (files, "/q/main.html", ctx))
    # namespaces that consist only of the defs written in the tag
    for C in (0, 1):
        for iuse in (0, 1):
            for imp in (None, "f", "*"):
                for probe in ("q_ns", "q_bare", "q_def"):
                    v = al["vals"]
                    ctx = {"x": v[0]}
                    if C:
                        ctx["f"] = "@helper:cf"
                    inline = [Def("f", "y='d'", [T("[I-f:"), ["var", "y"]] + ([T(":"), ["var", "x"]] if iuse else []) + [T("]")])]
                    body = [T("<")]
                    defs = []
                    if probe == "q_ns":
                        body.append(["attr", "ns", "f", "'q'"])
                    elif probe == "q_bare":
                        body.append(["call", "f", "y='w'"])
                    else:
                        defs.append(Def("dd", "", [["call", "f", ""]]))
                        body.append(["call", "dd", ""])
                    body.append(T(">"))
                    files = {"/only.html": File(ns=[Ns("ns", imp=imp, inline=inline)], defs=defs, body=body)}
                    meta = {"grid": "g2", "I": 1, "F": 0, "P": 0, "C": C, "H": 0, "iuse": iuse, "imp": imp, "probe": probe, "inline_only": 1}
                    yield meta, functools.partial(_const, (files, "/only.html", ctx))


# --------------------------------------------------------------------------
# g3: includes


def g3_target_body(tx, kw):
    b = [T("[a="), ["var", "a"], T(" b="), ["var", "b"]]
    if kw:
        b += [T(" kw="), ["kwitems", "kw"]]
    b += [T(" c="), ["ctxget", "c"], T(" " + tx + "]"), ["uri", "self"], ["uri", "local"], ["probe", "parent"], ["probe", "next"]]
    return b


G3_INCLUDERS = ["plain", "derived", "base", "def"]


def g3_includer(files, includer, stmt):
    if includer == "plain":
        files["/w/main.html"] = File(body=[T("<"), stmt, T(">")])
    elif includer == "derived":
        files["/w/base.html"] = File(body=[T("B("), ["attr", "next", "body", ""], T(")")])
        files["/w/main.html"] = File(inherit="base.html", body=[T("<"), stmt, T(">")])
    elif includer == "base":
        files["/w/base.html"] = File(body=[T("B<"), stmt, T(">("), ["attr", "next", "body", ""], T(")")])
        files["/w/main.html"] = File(inherit="base.html", body=[T("[main]")])
    elif includer == "def":
        files["/w/lib.html"] = File(defs=[Def("go", "", [T("<"), stmt, T(">")])])
        files["/w/main.html"] = File(ns=[Ns("l", file="lib.html")], body=[["attr", "l", "go", ""]])
    return "/w/main.html"


def gen_g3(tier, al):
    v = al["vals"]
    tx = al["txt"]
    pages = ["a, b=2, **kw", "a, b=2"]
    if tier == "thorough":
        pages.append("a='dflt', b=2, **kw")
    for page in pages:
        kw = "**" in page
        for ga, gb, gz in itertools.product((0, 1, 2), (0, 1, 2), (0, 1)):
            if gz and not kw:
                continue
            if (ga == 2 or gb == 2) and gz:
                continue
            parts = []
            if ga == 1:
                parts.append("a='%sarg'" % v[0])
            elif ga == 2:
                parts.append("a=''")  # an argument that is given, with a value that is false in a boolean test
            if gb == 1:
                parts.append("b='%sarg'" % v[1])
            elif gb == 2:
                parts.append("b=0")
            if gz:
                parts.append("z=9")
            args = ", ".join(parts)
            for ca, cb, cc in itertools.product((0, 1), repeat=3):
                ctx = {}
                if ca:
                    ctx["a"] = v[0] + "ctx"
                if cb:
                    ctx["b"] = v[1] + "ctx"
                if cc:
                    ctx["c"] = v[2] + "ctx"
                for includer in G3_INCLUDERS:
                    for mech in ("tag", "include_file"):
                        files = {"/w/inc/t.html": File(page=page, body=g3_target_body(tx, kw))}
                        if mech == "tag":
                            stmt = ["include", "inc/t.html", args]
                        else:
                            stmt = ["include_file", "local", "inc/t.html", args]
                        M = g3_includer(files, includer, stmt)
                        meta = {"grid": "g3", "page": page, "args": args, "ctx": sorted(ctx), "includer": includer, "mech": mech}
                        yield meta, functools.partial(_const, (files, M, dict(ctx)))
    # the include sits in a def that the body calls by its bare name: the def (and so the include) sees the
    # body's <%page> arguments and top-level assignments in its context (A2(6)), whatever render() was given
    for source in ("page", "assign", "both", "main-assign"):
        for rc in (0, 1):
            for target in ("required", "defaulted"):
                for ia in (0, 1):
                    for style in ("bare", "self"):
                        for name in ("a", "b"):
                            ctx = {name: v[0] + "render"} if rc else {}
                            tpage = name if target == "required" else "%s='dflt'" % name
                            files = {"/w/site/inc/hdr.html": File(page=tpage, body=[T("[" + name + "="), ["var", name], T(" c="), ["ctxget", "c"], T(tx + "]")])}
                            inc = ["include", "inc/hdr.html", ("%s='%sarg'" % (name, v[1])) if ia else ""]
                            hdr = Def("header", "", [T("h<"), inc, T(">")])
                            call = ["call", "header", ""] if style == "bare" else ["attr", "self", "header", ""]
                            pre = []
                            if source in ("assign", "both", "main-assign"):
                                pre = [["assign", name, "'%sassigned'" % v[2]]]
                            page = File(page=name if source in ("page", "both") else None, defs=[hdr], body=[T("p(")] + pre + [call, T(")")])
                            if source == "main-assign":
                                files["/w/site/main.html"] = page
                                M = "/w/site/main.html"
                            else:
                                files["/w/site/page.html"] = page
                                oa = ("%s='%souter'" % (name, v[0])) if source in ("page", "both") else ""
                                files["/w/main.html"] = File(body=[T("<"), ["include", "site/page.html", oa], T(">")])
                                M = "/w/main.html"
                            meta = {"grid": "g3", "page": tpage, "args": inc[2], "ctx": sorted(ctx), "includer": "def-called-from-body:" + source, "mech": "tag", "style": style}
                            yield meta, functools.partial(_const, (files, M, dict(ctx)))
    # targets with their own inheritance: own self/local/parent/next, nothing of the includer's
    for includer in G3_INCLUDERS:
        for mech in ("tag", "include_file"):
            for cc in (0, 1):
                ctx = {"c": v[2] + "ctx"} if cc else {}
                probes = [["uri", "self"], ["uri", "local"], ["probe", "parent"], ["probe", "next"], T(" c="), ["ctxget", "c"]]
                files = {
                    "/w/inc/t.html": File(inherit="tb.html", body=[T("[t:")] + probes + [T("]")]),
                    "/w/inc/tb.html": File(body=[T("[tb:")] + probes + [T("("), ["attr", "next", "body", ""], T(")]")]),
                }
                stmt = ["include", "inc/t.html", ""] if mech == "tag" else ["include_file", "local", "inc/t.html", ""]
                M = g3_includer(files, includer, stmt)
                meta = {"grid": "g3", "page": None, "args": "", "ctx": sorted(ctx), "includer": includer, "mech": mech, "target_inherits": 1}
                yield meta, functools.partial(_const, (files, M, dict(ctx)))
                # the BASE of the included chain declares <%page> arguments: the body that runs is the base's, so its
                # arguments are the ones taken from args / the context
                for args2 in ("", "c='%sarg'" % v[2]):
                    files = {
                        "/w/inc/t.html": File(inherit="tb.html", body=[T("[t:c="), ["ctxget", "c"], T("]")]),
                        "/w/inc/tb.html": File(page="c='dflt', e='edflt'", body=[T("[tb:c="), ["var", "c"], T(" e="), ["var", "e"], T("("), ["attr", "next", "body", ""], T(")]")]),
                    }
                    stmt = ["include", "inc/t.html", args2] if mech == "tag" else ["include_file", "local", "inc/t.html", args2]
                    M = g3_includer(files, includer, stmt)
                    meta = {"grid": "g3", "page": "c='dflt', e='edflt'", "args": args2, "ctx": sorted(ctx), "includer": includer, "mech": mech, "target_inherits": 2}
                    yield meta, functools.partial(_const, (files, M, dict(ctx)))


# --------------------------------------------------------------------------
# g4: module namespaces

G4_PROBES = ["plain_q", "ret_q", "wrap_cc", "wrap_nested", "plain_bare", "nosuch", "ret_bare"]


def gen_g4(tier, al):
    v = al["vals"]
    tx = al["txt"]
    for imp in (None, "plain", "*", "ret, plain", "wrap"):
        for I in (0, 1):
            for C in (0, 1):
                for X in (0, 1):
                    for probe in G4_PROBES:
                        ctx = {}
                        if C:
                            ctx["plain"] = "@helper:cf"
                        if X:
                            ctx["x"] = v[0]
                        inline = [Def("plain", "x='i'", [T("[I-plain:"), ["var", "x"], T("]")])] if I else []
                        nsd = Ns("mm", module="mc.c07_nsmod", imp=imp, inline=inline)
                        body = [T("<" + tx)]
                        if probe == "plain_q":
                            body.append(["attr", "mm", "plain", "'%s'" % v[1]])
                        elif probe == "ret_q":
                            body.append(["attr", "mm", "ret", "'%s'" % v[1]])
                        elif probe == "wrap_cc":
                            body.append(["nscall", "mm", "wrap", {"tag": "q"}, [T("in["), ["attr", "mm", "ret", "1"], T("]")]])
                        elif probe == "wrap_nested":
                            body.append(["nscall", "mm", "wrap", {"tag": "o"}, [T("a"), ["nscall", "mm", "wrap", {}, [T("b")]], T("c")]])
                        elif probe == "plain_bare":
                            body.append(["call", "plain", ""])
                        elif probe == "nosuch":
                            body.append(["attr", "mm", "nosuch", ""])
                        elif probe == "ret_bare":
                            body.append(["call", "ret", "x=2"])
                        body.append(T(">"))
                        files = {"/mod/main.html": File(ns=[nsd], body=body)}
                        meta = {"grid": "g4", "imp": imp, "I": I, "C": C, "X": X, "probe": probe}
                        yield meta, functools.partial(_const, (files, "/mod/main.html", ctx))


# --------------------------------------------------------------------------
# g5: chains of hops

G5_MECH = ["inc", "incf", "nsd", "gns", "inh"]


def relspell(a, b, fname):
    """a relative URI from directory a to fname in directory b (the reference resolver is the oracle for it)"""
    A = [c for c in a.split("/") if c]
    B = [c for c in b.split("/") if c]
    i = 0
    while i < len(A) and i < len(B) and A[i] == B[i]:
        i += 1
    return "/".join([".."] * (len(A) - i) + B[i:] + [fname])


def g5_program(al, dirs, mechs, spells, same_name=False):
    k = len(mechs)
    tx = al["txt"]
    files = {}
    # same_name: every file is called f.html, so the same relative spelling ('../f.html') can occur in two
    # files of one render and must be resolved against each of them
    names = ["f.html" if same_name else "f%d.html" % i for i in range(k + 1)]
    paths = ["%s/%s" % (dirs[i], names[i]) for i in range(k + 1)]
    for i in range(k + 1):
        incoming = mechs[i - 1] if i > 0 else None
        in_def = incoming in ("nsd", "gns")
        f = File()
        if i == k:
            content = [T("[END%s]" % tx), ["uri", "local"]]
        else:
            m = mechs[i]
            sp = relspell(dirs[i], dirs[i + 1], names[i + 1]) if spells[i] == "rel" else paths[i + 1]
            if m == "inc":
                hop = ["include", sp, ""]
            elif m == "incf":
                hop = ["include_file", "local", sp, ""]
            elif m == "nsd":
                f["ns"].append(Ns("n", file=sp))
                hop = ["attr", "n", "go", ""]
            elif m == "gns":
                hop = ["get_ns", "local", sp, "go", ""]
            elif m == "inh":
                f["inherit"] = sp
                hop = ["attr", "parent", "body", ""] if in_def else T("[shadowed-body]")
            content = [T("<%d:" % i), hop, T(">")]
        if in_def:
            f["defs"].append(Def("go", "", content))
            f["body"] = [T("[body-of-%d]" % i)]
        else:
            f["body"] = content
        files[paths[i]] = f
    return files, paths[0], {}


def g5_specs(tier, al):
    """(k, directories, mechanisms, spellings) blocks, each enumerated completely"""
    d1, d2, d3 = al["dirs"]
    D3 = ["", "/" + d1, "/%s/%s" % (d1, d2)]
    D2 = ["", "/%s/%s" % (d1, d2)]
    both = ("rel", "abs")
    if tier == "quick":
        return [(1, D3, G5_MECH, both), (2, D3, G5_MECH, both), (3, D2, ["inc", "nsd", "inh"], ("rel",))]
    D4 = D3 + ["/e"]
    return [
        (1, D4, G5_MECH, both),
        (2, D4, G5_MECH, both),
        (3, D3, G5_MECH, both),
        (4, D2, ["inc", "nsd", "inh"], both),
        (5, D2, ["inc", "nsd", "inh"], ("rel",)),  # 6 files
        (7, D2, "one-switch", ("rel",)),  # 8 files; mechanism vectors over {inc, nsd} with at most one change
    ]


def gen_g5(tier, al):
    for k, D, mechset, spellset in g5_specs(tier, al):
        if mechset == "one-switch":
            mvecs = [tuple([a] * i + [b] * (k - i)) for a, b in (("inc", "nsd"), ("nsd", "inc")) for i in range(1, k + 1)]
        else:
            mvecs = list(itertools.product(mechset, repeat=k))
        for dirs in itertools.product(D, repeat=k + 1):
            for mechs in mvecs:
                for spells in itertools.product(spellset, repeat=k):
                    meta = {"grid": "g5", "k": k, "mechs": "-".join(mechs), "spells": "-".join(spells), "dirs": [x or "/" for x in dirs]}
                    yield meta, functools.partial(g5_program, al, dirs, mechs, spells)
                    if k >= 2 and len(set(dirs)) == len(dirs) and "rel" in spells:
                        yield dict(meta, same_name=1), functools.partial(g5_program, al, dirs, mechs, spells, True)


# --------------------------------------------------------------------------
# g7: the same namespace NAME in two files of one render, each resolving the same relative spelling

G7_MECH = ["ns_get_namespace", "ns_get_template", "ns_include_file", "chained_get_namespace"]
G7_REL = ["include", "nsdef", "base"]


def g7_program(al, dA, dB, sp, mech, rel, first, present):
    """two files in different directories declare <%namespace name="h" file="helper.html"/> (each beside
    its own helper.html) and reach `sp` through h; every call must resolve against its own helper"""
    d1, d2, d3 = al["dirs"]
    tx = al["txt"]
    DIRS = ["", "/" + d1, "/%s/%s" % (d1, d2), "/%s/%s/%s" % (d1, d2, d3)]
    A, B = DIRS[dA], DIRS[dB]

    def call(tag):
        if mech == "ns_get_namespace":
            st = [["get_ns", "h", sp, "body", ""], ["get_ns", "h", sp, "m", ""]]
        elif mech == "ns_get_template":
            st = [["get_tpl", "h", sp]]
        elif mech == "ns_include_file":
            st = [["include_file", "h", sp, ""]]
        else:
            st = [["get_ns2", "local", "helper.html", sp, "body"]]
        return [T(tag + "<")] + st + [T(">")]

    nsh = [] if mech == "chained_get_namespace" else [Ns("h", file="helper.html")]
    files = {}
    for D in (A, B):
        files[D + "/helper.html"] = File(defs=[Def("k", "", [T("[k]")])], body=[T("[helper-body]")])
    M = A + "/main.html"
    Pt = B + "/part.html"
    ca, cb = call("A"), call("B")
    if rel == "include":
        inc = [["include", Pt, ""]]
        files[M] = File(ns=list(nsh), body=(ca + inc) if first == "A" else (inc + ca))
        files[Pt] = File(ns=list(nsh), body=cb)
    elif rel == "nsdef":
        go = [["attr", "p", "go", ""]]
        files[M] = File(ns=list(nsh) + [Ns("p", file=Pt)], body=(ca + go) if first == "A" else (go + ca))
        files[Pt] = File(ns=list(nsh), defs=[Def("go", "", cb)], body=[T("[part-body]")])
    else:
        nb = [["attr", "next", "body", ""]]
        files[M] = File(ns=list(nsh), inherit=Pt, body=ca)
        files[Pt] = File(ns=list(nsh), body=(nb + cb) if first == "A" else (cb + nb))
    for D, here in ((A, present[0]), (B, present[1])):
        if here:
            try:
                t = R.resolve(sp, D + "/helper.html")
            except R.Lookup:
                continue
            if t not in files:
                files[t] = target_file(t.rsplit("/", 1)[0] or "/", tx)
    return files, M, {}


def gen_g7(tier, al):
    spells = ["t.html"] if tier == "quick" else ["t.html", "sub/t.html", "../t.html"]
    for dA in range(4):
        for dB in range(4):
            if dA == dB:
                continue
            for sp in spells:
                for mech in G7_MECH:
                    for rel in G7_REL:
                        for first in ("A", "B"):
                            for present in ((1, 1), (1, 0), (0, 1), (0, 0)):
                                meta = {"grid": "g7", "mech": mech, "rel": rel, "first": first, "present": list(present), "dA": dA, "dB": dB, "sp": spelling_class(sp)}
                                yield meta, functools.partial(g7_program, al, dA, dB, sp, mech, rel, first, present)


# --------------------------------------------------------------------------
# g8: several file namespaces in one template; every library def must see its own self/local

G8_PROBES = ["uri", "self_def", "include_file", "get_template", "get_namespace", "include_tag"]


def g8_program(al, order, callorder, probe, site):
    d1, d2, d3 = al["dirs"]
    tx = al["txt"]
    LIBDIRS = ["/lib0", "/%s/lib1" % d1, "/%s/%s/lib2" % (d1, d2)]
    files = {}
    for i in order:
        D = LIBDIRS[i]
        if probe == "uri":
            pb = [["uri", "local"], ["uri", "self"]]
        elif probe == "self_def":
            pb = [["attr", "self", "who", ""], ["attr", "local", "who", ""]]
        elif probe == "include_file":
            pb = [["include_file", "local", "t.html", ""]]
        elif probe == "get_template":
            pb = [["get_tpl", "local", "t.html"]]
        elif probe == "get_namespace":
            pb = [["get_ns", "local", "t.html", "m", ""]]
        else:
            pb = [["include", "t.html", ""]]
        files[D + "/l.html"] = File(defs=[Def("who", "", [T("[who:%d%s]" % (i, tx))]), Def("probe", "", [T("p%d<" % i)] + pb + [T(">")])], body=[T("[lib%d-body]" % i)])
        files[D + "/t.html"] = target_file(D, tx)
    nss = [Ns("n%d" % i, file=LIBDIRS[i] + "/l.html") for i in order]
    calls = []
    for i in callorder:
        calls.append(["attr", "n%d" % i, "probe", ""])
    if site == "plain":
        files["/m/main.html"] = File(ns=nss, body=[T("<")] + calls + [T(">")])
    elif site == "derived":
        files["/m/base.html"] = File(body=[T("B("), ["attr", "next", "body", ""], T(")")])
        files["/m/main.html"] = File(inherit="base.html", ns=nss, body=[T("<")] + calls + [T(">")])
    else:
        files["/m/base.html"] = File(ns=nss, body=[T("B<")] + calls + [T(">("), ["attr", "next", "body", ""], T(")")])
        files["/m/main.html"] = File(inherit="base.html", body=[T("M")])
    return files, "/m/main.html", {}


def gen_g8(tier, al):
    orders = list(itertools.permutations((0, 1))) + list(itertools.permutations((0, 1, 2)))
    for order in orders:
        for rev in (0, 1):
            callorder = tuple(reversed(order)) if rev else order
            for probe in G8_PROBES:
                for site in ("plain", "derived", "base"):
                    meta = {"grid": "g8", "order": list(order), "callorder": list(callorder), "probe": probe, "site": site}
                    yield meta, functools.partial(g8_program, al, order, callorder, probe, site)


# --------------------------------------------------------------------------
# g9: two templates of one render whose URIs differ only in non-word characters, each declaring a
# namespace of the same name with a different file (and the control: URIs that differ in a word character)

G9_PAIRS = [("/a/b.html", "/a_b.html"), ("/a-b.html", "/a_b.html"), ("/a.b.html", "/a-b.html"), ("/a/b.html", "/a/b_html")]
G9_CONTROL = {"/a_b.html": "/a_c.html", "/a-b.html": "/a-c.html", "/a/b_html": "/a/c_html"}


def g9_program(al, first, second, rel):
    tx = al["txt"]
    files = {
        "/l1.html": File(defs=[Def("f", "", [T("[L1" + tx + "]")])], body=[T("[l1-body]")]),
        "/l2.html": File(defs=[Def("f", "", [T("[L2" + tx + "]")])], body=[T("[l2-body]")]),
    }
    n1, n2 = Ns("n", file="/l1.html"), Ns("n", file="/l2.html")
    a, b = [T("A<"), ["attr", "n", "f", ""], T(">")], [T("B<"), ["attr", "n", "f", ""], T(">")]
    if rel == "include":
        files[first] = File(ns=[n1], body=a + [["include", second, ""]])
        files[second] = File(ns=[n2], body=b)
    elif rel == "include-first":
        files[first] = File(ns=[n1], body=[["include", second, ""]] + a)
        files[second] = File(ns=[n2], body=b)
    elif rel == "nsdef":
        files[first] = File(ns=[n1, Ns("p", file=second)], body=a + [["attr", "p", "go", ""]])
        files[second] = File(ns=[n2], defs=[Def("go", "", b)], body=[T("[p-body]")])
    else:
        files[first] = File(ns=[n1], inherit=second, body=a)
        files[second] = File(ns=[n2], body=b + [T("("), ["attr", "next", "body", ""], T(")")])
    return files, first, {}


def gen_g9(tier, al):
    for first, second in G9_PAIRS:
        for rel in ("include", "include-first", "nsdef", "inherit"):
            for swap in (0, 1):
                f_, s_ = (second, first) if swap else (first, second)
                # control: the same program with the punctuation-only difference turned into a word-character difference
                cs = G9_CONTROL.get(s_) or s_
                cf = f_ if cs != s_ else G9_CONTROL.get(f_, f_)
                cfiles, cM, _ = g9_program(al, cf, cs, rel)
                cexp, _ = R.render(cfiles, cM, {})
                control = {"files": IR.print_program(cfiles), "main": cM, "expected": list(cexp)}
                meta = {"grid": "g9", "uris": [f_, s_], "rel": rel, "control": control}
                yield meta, functools.partial(g9_program, al, f_, s_, rel)
                yield {"grid": "g9", "uris": [cf, cs], "rel": rel, "is_control": 1}, functools.partial(g9_program, al, cf, cs, rel)


# --------------------------------------------------------------------------
# g10: histories on ONE lookup: several templates reaching the same library template in different ways
# (import="*", import="name", named namespace, inline defs in the tag, inheritable, include, inherit, Namespace API),
# rendered one after the other; every render must be what that template renders on its own (closed form)

G10_LIB = '<%def name="libdef()">L</%def><%def name="other(a)">O${a}</%def><%block name="lb">K</%block>|lib-body'
G10_MAINS = {
    "star-with-inline-def": ('<%namespace file="lib.html" import="*"><%def name="extra()">X</%def></%namespace>[${extra()}${libdef()}${other(1)}]', "[XLO1]"),
    "star": ('<%namespace file="lib.html" import="*"/>[${libdef()}${other(2)}]', "[LO2]"),
    "star-with-other-inline-def": ('<%namespace file="lib.html" import="*"><%def name="more()">Y</%def></%namespace>[${more()}${libdef()}]', "[YL]"),
    "star-inline-def-shadows": ('<%namespace file="lib.html" import="*"><%def name="libdef()">S</%def></%namespace>[${libdef()}${other(3)}]', "[SO3]"),
    "named": ('<%namespace name="q" file="lib.html"/>[${q.libdef()}${q.other(4)}]', "[LO4]"),
    "named-with-inline-def": ('<%namespace name="q" file="lib.html"><%def name="extra()">Z</%def></%namespace>[${q.extra()}${q.libdef()}]', "[ZL]"),
    "import-names": ('<%namespace file="lib.html" import="libdef, other"/>[${libdef()}${other(5)}]', "[LO5]"),
    "inheritable": ('<%inherit file="ibase.html"/>[${self.q.libdef()}${self.q.other(7)}]', "[LO7]"),
    "include": ('[<%include file="lib.html"/>]', "[K|lib-body]"),
    "inherit": ('<%inherit file="lib.html"/><%block name="lb">D</%block>', "D|lib-body"),
    "api": ("[${context.lookup.get_template('/d/lib.html').get_def('libdef').render()}<% ns = local.get_namespace('lib.html') %>${ns.other(6)}]", "[LO6]"),
    # several <%namespace> tags in one template: an importing tag followed / preceded by tags that import nothing
    "import-then-plain-tag": ('<%namespace file="lib.html" import="libdef"/><%namespace name="r" file="lib2.html"/>[${libdef()}${r.two()}]', "[L2]"),
    "plain-tag-then-import": ('<%namespace name="r" file="lib2.html"/><%namespace file="lib.html" import="libdef"/>[${libdef()}${r.two()}]', "[L2]"),
    "star-then-plain-tag": ('<%namespace file="lib.html" import="*"/><%namespace name="r" file="lib2.html"/>[${libdef()}${other(8)}${r.two()}]', "[LO82]"),
    "import-then-two-plain-tags": ('<%namespace file="lib.html" import="other"/><%namespace name="r" file="lib2.html"/><%namespace name="q" file="lib.html"/>[${other(9)}${q.libdef()}<%def name="dd()">${other(0)}</%def>${dd()}]', "[O9LO0]"),
    "two-importing-tags": ('<%namespace file="lib2.html" import="two"/><%namespace file="lib.html" import="libdef"/>[${two()}${libdef()}]', "[2L]"),
    # unresolvable URIs of unusual shape: below a regular file, a component no file system accepts, a directory
    "include-below-a-file": ('[<%include file="lib.html/extra.html"/>]', "LOOKUP-ERROR"),
    "namespace-below-a-file": ('<%namespace name="q" file="lib.html/extra.html"/>[${q.libdef()}]', "LOOKUP-ERROR"),
    "inherit-below-a-file": ('<%inherit file="/d/lib.html/extra.html"/>x', "LOOKUP-ERROR"),
    "api-below-a-file": ("[${local.get_namespace('lib.html/extra.html').libdef()}]", "LOOKUP-ERROR"),
    "include-overlong-name": ('[<%include file="' + "n" * 300 + '.html"/>]', "LOOKUP-ERROR"),
    "include-a-directory": ('[<%include file="/d"/>]', "LOOKUP-ERROR"),
    "get_template-below-a-file": ("[${context.lookup.get_template('/d/lib.html/x/y.html').render()}]", "LOOKUP-ERROR"),
    # the include target inherits and the BASE declares <%page> arguments: as when the target is rendered on its own, the
    # body that runs takes them from args first, from the context second
    "include-inheriting-target": ('[<%include file="inh.html"/>|<%include file="inh.html" args="pc=\'A\'"/>]', "[B(CTX|I)|B(A|I)]"),
    "include_file-inheriting-target": ("[<% local.include_file('inh.html') %>|<% local.include_file('inh.html', pc='A') %>]", "[B(CTX|I)|B(A|I)]"),
    # an import list mixing * with an explicit name that * does not cover (a def the namespace's template inherits;
    # an underscore name of a module), and names reached through the namespace's own inheritance only
    "star-plus-inherited-name": ('<%namespace file="libinh.html" import="*, based"/>[${own()}${based()}]', "[WQ]"),
    "inherited-name-only": ('<%namespace file="libinh.html" import="based"/>[${based()}]', "[Q]"),
    "name-plus-star": ('<%namespace file="libinh.html" import="based, *"/>[${own()}${based()}]', "[WQ]"),
    # a module namespace whose module is a top-level one that nothing has imported yet (dropped from sys.modules first)
    "module-toplevel": ('<%namespace name="m" module="c07_topmod"/>[${m.pub("a")}]', "[Pa]"),
    "module-toplevel-star-underscore": ('<%namespace module="c07_topmod" import="*, _fmt"/>[${pub("a")}${_fmt("b")}]', "[PaFb]"),
    # a def of an INHERITING page rendered on its own (get_def): `local` is the page, relative URIs resolve next to it
    "getdef-of-inheriting-page": ("[${context.lookup.get_template('/d/inhpage.html').get_def('pd').render()}]", "[PAGE-PART|/d/inhpage.html|P]"),
    "getdef-of-inheriting-page-unicode": ("[${context.lookup.get_template('/d/inhpage.html').get_def('pd').render_unicode()}]", "[PAGE-PART|/d/inhpage.html|P]"),
    "star-attr-probe": ('<%namespace name="q" file="lib.html"/>[${hasattr(q, "extra")}${hasattr(q, "more")}${sorted(k for k in ("libdef", "other", "extra", "more", "lb") if hasattr(q, k))}]', "[FalseFalse['lb', 'libdef', 'other']]"),
}


def g10_cases(tier):
    names = list(G10_MAINS)
    for backing in ("put", "files"):
        for ia, a in enumerate(names):
            for ib, b in enumerate(names):
                yield {"grid": "g10", "backing": backing, "order": [a, b, a]}


_TOPMOD = {}


def _topmod():
    """a top-level module on sys.path that no one has imported: written once per process, forgotten before every case"""
    import sys

    if _TOPMOD.get("pid") != os.getpid():
        d = core.scratch_dir("c07mod-")
        with open(os.path.join(d, "c07_topmod.py"), "w") as f:
            f.write("def pub(context, a):\n    return 'P' + a\n\n\ndef _fmt(context, b):\n    return 'F' + b\n")
        _TOPMOD.update(pid=os.getpid(), dir=d)
    if _TOPMOD["dir"] not in sys.path:
        sys.path.insert(0, _TOPMOD["dir"])
    sys.modules.pop("c07_topmod", None)


def g10_execute(c):
    from mako.lookup import TemplateLookup

    files = {"/d/lib.html": G10_LIB, "/d/lib2.html": '<%def name="two()">2</%def>', "/d/inh.html": '<%inherit file="ibase2.html"/>I',
             "/l/layout.html": '<%def name="who()">L</%def>L(${next.body()})', "/l/part.html": "LAYOUT-PART", "/d/part.html": "PAGE-PART",
             "/d/inhpage.html": '<%inherit file="/l/layout.html"/><%def name="who()">P</%def><%def name="pd()">${local.get_template("part.html").render()}|${local.uri}|${local.who()}</%def>body',
             "/d/libinh.html": '<%inherit file="libbase.html"/><%def name="own()">W</%def>', "/d/libbase.html": '<%def name="based()">Q</%def>${next.body()}',
             "/d/ibase2.html": "<%page args=\"pc='dflt'\"/>B(${pc}|${next.body()})", "/d/ibase.html": '<%namespace name="q" file="lib.html" inheritable="True"/>${next.body()}'}
    for k, (src, _e) in G10_MAINS.items():
        files["/d/" + k + ".html"] = src
    wd = None
    _topmod()
    try:
        if c["backing"] == "put":
            lk = TemplateLookup()
            for u in sorted(files):
                lk.put_string(u, files[u])
        else:
            wd = _workdir()
            for u in sorted(files):
                _write(wd + u, files[u])
            lk = TemplateLookup(directories=[wd])
        obs = []
        for k in c["order"]:
            try:
                obs.append("".join(lk.get_template("/d/" + k + ".html").render_unicode(pc="CTX").split("\n")))
            except Exception as e:  # noqa
                from mako import exceptions as mexc

                obs.append("LOOKUP-ERROR" if isinstance(e, mexc.TemplateLookupException) else "%s: %s" % (type(e).__name__, str(e)[:160]))
        return obs
    finally:
        if wd is not None:
            shutil.rmtree(wd, ignore_errors=True)


def g10_check(c, st):
    obs = g10_execute(c)
    exp = [G10_MAINS[k][1] for k in c["order"]]
    st.evaluations += len(obs)
    st.traces += 1
    st.states += 1
    st.transitions += len(obs)
    st.nontrivial += 1
    st.oracles["history:closed-form"] += 1
    ok = obs == exp
    st.outcomes[("g10", "ok" if ok else "differs")] += 1
    if not ok:
        i = [x == y for x, y in zip(obs, exp)].index(False)
        alone = g10_execute(dict(c, order=[c["order"][i]]))
        if alone != [exp[i]]:
            sig = "history:%s:differs on its own" % c["order"][i]
        else:
            sig = "history:%s:differs only after %s" % (c["order"][i], "+".join(c["order"][:i]))
        st.violation(sig, c, "every render on one lookup equals what the template renders on its own (closed form)", expected=exp, observed=obs)


# --------------------------------------------------------------------------
# case stream

GRIDS = {"g1": gen_g1, "g2": gen_g2, "g3": gen_g3, "g4": gen_g4, "g5": gen_g5, "g6": gen_g6, "g7": gen_g7, "g8": gen_g8, "g9": gen_g9}
BACKINGS = {
    "g1": ["put", "files1", "files2"],
    "g2": ["put", "files1"],
    "g3": ["put", "files2"],
    "g4": ["put"],
    "g5": ["files1", "put"],
    "g6": ["files1"],
    "g7": ["put", "files1"],
    "g8": ["put", "files1"],
    "g9": ["put", "files1"],
}


def uses_dots(files):
    def uris(f):
        if f["inherit"] is not None:
            yield f["inherit"]
        for n in f["ns"]:
            if n["file"] is not None:
                yield n["file"]
            for d in n["inline"]:
                for u in stmt_uris(d["body"]):
                    yield u
        for d in f["defs"]:
            for u in stmt_uris(d["body"]):
                yield u
        for u in stmt_uris(f["body"]):
            yield u

    def stmt_uris(stmts):
        for s in stmts:
            if s[0] == "include":
                yield s[1]
            elif s[0] in ("include_file", "get_ns", "get_tpl"):
                yield s[2]
            elif s[0] == "get_ns2":
                yield s[2]
                yield s[3]
            elif s[0] == "block":
                for u in stmt_uris(s[2]):
                    yield u
            elif s[0] == "nscall":
                for u in stmt_uris(s[4]):
                    yield u

    for f in files.values():
        for u in uris(f):
            if has_dots(u):
                return True
    return False


def nontrivial(meta, files, M, it):
    g = meta["grid"]
    if g in ("g1", "g6"):
        return meta["d"] > 0 or meta["site"] != "main"
    if g == "g2":
        n = meta["I"] + meta["F"] + meta["P"] + meta["C"] + (1 if meta["imp"] else 0)
        return n >= 2
    if g == "g3":
        return bool(meta["args"] and meta["ctx"]) or meta["includer"] != "plain"
    if g == "g4":
        return meta["probe"] in ("wrap_cc", "wrap_nested", "plain_bare", "ret_bare") or bool(meta["imp"])
    if g == "g5":
        return meta["k"] >= 2
    if g in ("g7", "g8", "g9"):
        return True
    return False


def cases(grid, tier, seed, shard=0, nshards=1):
    """the cases of one grid that fall into one shard (programs are dealt round-robin; every backing /
    main-URI spelling of a program stays in the same shard): (files, main, ctx, meta)"""
    al = alphabet(seed)
    idx = -1
    for meta, thunk in GRIDS[grid](tier, al):
        idx += 1
        if idx % nshards != shard:
            continue
        files, M, ctx = thunk()
        dots = uses_dots(files) or any(has_dots(v) for v in ctx.values() if isinstance(v, str))
        main_spell = [M]
        if tier == "thorough" and grid == "g1":
            main_spell.append(M.lstrip("/"))
        for backing in BACKINGS[grid]:
            if backing == "put" and grid == "g5" and (dots or meta["k"] > 2):
                continue
            if backing == "files1" and grid == "g2" and tier == "quick":
                continue  # precedence does not depend on the backing: second backing in the thorough tier only
            if tier == "quick":
                # quick tier: one of the two file backings per depth, put_string chains of one hop only,
                # the second backing of g7 for the cached mechanisms only (everything in the thorough tier)
                if grid == "g1" and backing == ("files2" if meta["d"] % 2 == 0 else "files1"):
                    continue
                if grid == "g5" and backing == "put" and meta["k"] > 1:
                    continue
                if grid == "g7" and backing == "files1" and "get_namespace" not in meta["mech"]:
                    continue
            for ms in main_spell:
                if ms != M and backing == "put":
                    continue
                yield files, ms, ctx, dict(meta, backing=backing, dots=dots)


def make_case(files, M, ctx, meta):
    exp, it = R.render(files, M, E.build_ctx(ctx), strict=bool(meta.get("strict")))
    text = IR.print_program(files)
    case = {"files": text, "main": M, "ctx": ctx, "backing": meta["backing"], "expected": list(exp), "meta": meta}
    return case, it


# --------------------------------------------------------------------------
# execution on the real code

_URI_RE = re.compile(r"\{U:([^}]*)\}")


def norm_output(s):
    return _URI_RE.sub(lambda m: "{U:%s}" % R.norm_uri_text(m.group(1)), s)


_work = {"pid": None, "dir": None, "n": 0}


def _workdir():
    if _work["pid"] != os.getpid():
        _work["pid"] = os.getpid()
        _work["dir"] = core.scratch_dir("c07")
        _work["n"] = 0
    _work["n"] += 1
    return os.path.join(_work["dir"], "k%d" % _work["n"])


def _write(path, text):
    os.makedirs(os.path.dirname(path), exist_ok=True)
    with open(path, "w", encoding="utf-8") as f:
        f.write(text)


def execute(case):
    """plain calls on the library: build the lookup, fetch the main template, render"""
    from mako.lookup import TemplateLookup
    from mako import exceptions

    files, main, backing = case["files"], case["main"], case["backing"]
    ctx = E.build_ctx(case["ctx"])
    tkw = {"strict_undefined": True} if case["meta"].get("strict") else {}
    wd = None
    try:
        if backing == "put":
            lk = TemplateLookup(**tkw)
            try:
                for u in sorted(files):
                    lk.put_string(u, files[u])
            except Exception as e:  # noqa
                return ("harness", "put_string(%r) failed: %s: %s" % (u, type(e).__name__, e))
        else:
            wd = _workdir()
            inner = os.path.join(wd, "o1", "o2")
            roots = [os.path.join(inner, "r0")]
            if backing == "files2":
                roots.append(os.path.join(inner, "r1"))
            for r in roots:
                os.makedirs(r, exist_ok=True)
            for u in sorted(files):
                # two directories: the files that hold tags in the first, pure targets in the second
                r = roots[-1] if (backing == "files2" and u.endswith("/t.html")) else roots[0]
                _write(r + u, files[u])
            if case["meta"].get("dots"):
                # decoys outside the lookup root: a URI that climbs out must not reach them
                for p in (os.path.join(inner, "t.html"), os.path.join(wd, "o1", "t.html"), os.path.join(inner, "abs", "t.html"), os.path.join(inner, "sub", "t.html")):
                    _write(p, "[OUTSIDE-THE-ROOT]")
            lk = TemplateLookup(directories=roots, **tkw)
        try:
            t = lk.get_template(main)
        except Exception as e:  # noqa
            return ("harness", "main template not served: %s: %s" % (type(e).__name__, e))
        try:
            out = t.render_unicode(**ctx)
            return ("out", out)
        except exceptions.TopLevelLookupException as e:
            return ("exc", "TopLevelLookupException", str(e)[:200])
        except exceptions.TemplateLookupException as e:
            return ("exc", "TemplateLookupException", str(e)[:200])
        except Exception as e:  # noqa
            return ("exc", type(e).__name__, str(e)[:200])
        except BaseException as e:  # noqa
            return ("baseexc", type(e).__name__, str(e)[:200])
    finally:
        if wd is not None:
            shutil.rmtree(wd, ignore_errors=True)


_WINNER = re.compile(r"\[(I|F|P)-(?:f|plain|max|format|id)|\[A-f|\[B-g|<ctx-[fg]>|P\(|R\(")


def _winner(obs):
    if obs[0] == "out":
        m = _WINNER.search(obs[1])
        if not m:
            return "none"
        g = m.group(0)
        if g.startswith("[F-"):
            return "file"
        return {"[I-f": "inline", "[F-f": "file", "[P-f": "inherited", "[I-plain": "inline", "<ctx-f>": "context", "<ctx-g>": "context", "[A-f": "file", "[B-g": "file", "P(": "module", "R(": "module"}.get(g, g)
    if obs[0] == "exc":
        if obs[1] == "NameError" and "_import_ns" in obs[2]:
            return "NameError(_import_ns)"
        return obs[1]
    return obs[0]


def _marker_key(s):
    m = re.search(r"\[(?:T|M):([^\]\s]*)", s)
    return m.group(1) if m else None


def signature(case, obs, kind):
    """footprint of a failure: grid + the feature that decides the answer + how it fails"""
    meta = case["meta"]
    exp = case["expected"]
    g = meta["grid"]
    if kind == "toplevel-leak":
        return "%s:unresolvable uri via %s raises TopLevelLookupException" % (g, meta.get("mech", meta.get("mechs", "?")))
    how = obs[1] if obs[0] == "exc" else obs[0]
    if obs[0] == "exc" and obs[1] == "NameError" and "_import_ns" in obs[2]:
        # one footprint wherever it shows: a def written inside <%namespace> reads a non-local name while
        # some <%namespace> of the file carries import=
        return "inline-def:free name in a def written inside <%namespace> while import= is present:NameError(_import_ns)"
    if g in ("g2", "g4") and exp[0] == "out" and obs[0] == "out" and meta["imp"] and "*" in meta["imp"]:
        ew, ow = _winner(tuple(exp)), _winner(obs)
        if ew == "inline" and ow in ("file", "module"):
            return "import-star:def written inside <%%namespace> shadowed by the %s's def of the same name" % ow
    if g in ("g1", "g6"):
        if exp[0] == "out" and obs[0] == "out":
            if "[OUTSIDE-THE-ROOT]" in obs[1]:
                how = "served a file outside the root"
            else:
                ek, ok_ = _marker_key(exp[1]), _marker_key(norm_output(obs[1]))
                if ek != ok_:
                    how = "other template than the uri names"
                elif re.sub(r"\{U:[^}]*\}", "", exp[1]) == re.sub(r"\{U:[^}]*\}", "", obs[1]):
                    how = "uri attribute differs"
                else:
                    how = "output differs"
        elif exp[0] == "err" and obs[0] == "out":
            how = "served a file outside the root" if "[OUTSIDE-THE-ROOT]" in obs[1] else "unresolvable uri served"
        extra = ""
        if g == "g6":
            extra = ":args"
        return "%s:%s:%s:%s%s:exp=%s:obs=%s" % (g, meta["mech"], meta["site"], meta["sp"], extra, exp[0] if exp[0] != "err" else exp[1], how)
    if g == "g2":
        impk = "none" if meta["imp"] is None else ("star" if "*" in meta["imp"] else "named")
        ew = _winner(tuple(exp)) if exp[0] == "out" else exp[1]
        if meta.get("name"):
            return "g2:import=%s of a def named like a %s:%s:exp=%s:obs=%s" % (
                impk, "builtin" if meta["name"] != "f" else "context variable", "strict_undefined" if meta.get("strict") else "default", ew, _winner(obs))
        if meta.get("one_line"):
            anon = sum(1 for k_ in meta["imp"].split("+") if k_.startswith("anon"))
            return "g2:%d name-less <%%namespace import=> tags on one line:exp=%s:obs=%s" % (anon, ew, _winner(obs))
        return "g2:%s:import=%s%s:exp=%s:obs=%s" % (
            "qualified" if meta["probe"] in ("q_ns", "q_self") else "bare",
            impk,
            ":inline-uses-context" if meta["iuse"] else "",
            ew,
            _winner(obs),
        )
    if g == "g3":
        feat = "args-vs-context" if (meta["args"] or meta["ctx"]) and not meta.get("target_inherits") else "inheritance-tokens"
        if exp[0] == "out" and obs[0] == "out":
            e_, o_ = exp[1], norm_output(obs[1])
            parts = []
            for lab in ("a=", "b=", "kw=", "c="):
                me, mo = re.search(re.escape(lab) + r"(\S*)", e_), re.search(re.escape(lab) + r"(\S*)", o_)
                if (me and me.group(1)) != (mo and mo.group(1)):
                    parts.append(lab.rstrip("="))
            if parts:
                feat, how = "args-vs-context", "wrong " + ",".join(parts)
            else:
                feat, how = "inheritance-tokens", "self/local/parent/next differ"
        if meta["includer"].startswith("def-called-from-body"):
            return "g3:include inside a def the body calls by name:%s:exp=%s:obs=%s" % (meta["includer"].split(":")[1], exp[0] if exp[0] != "err" else exp[1], how)
        return "g3:%s:%s:exp=%s:obs=%s" % (meta["mech"], feat, exp[0] if exp[0] != "err" else exp[1], how)
    if g == "g4":
        impk = "none" if meta["imp"] is None else ("star" if "*" in meta["imp"] else "named")
        return "g4:%s:import=%s:exp=%s:obs=%s" % (meta["probe"], impk, _winner(tuple(exp)) if exp[0] == "out" else exp[1], how if obs[0] != "out" else _winner(obs))
    if g == "g8":
        return "g8:%s in a def of one of several file namespaces of a template:exp=%s:obs=%s" % (meta["probe"], exp[0] if exp[0] != "err" else exp[1], "another namespace's template answered" if obs[0] == "out" else how)
    if g == "g9":
        return "g9:%s:exp=%s:obs=%s" % (meta["rel"], exp[0] if exp[0] != "err" else exp[1], "other output" if obs[0] == "out" else how)
    if g == "g7":
        if exp[0] == "out" and obs[0] == "out":
            how = "a namespace of the same name in another file answered (other template than the uri names)"
        elif exp[0] == "err" and obs[0] == "out":
            how = "unresolvable uri served"
        what = "get_namespace" if "get_namespace" in meta["mech"] else meta["mech"]
        return "g7:%s through a namespace name shared by two files:exp=%s:obs=%s" % (what, exp[0] if exp[0] != "err" else exp[1], how)
    if g == "g5":
        return "g5:%s:%s:exp=%s:obs=%s" % (meta["mechs"], meta["spells"], exp[0] if exp[0] != "err" else exp[1], how)
    return "%s:exp=%s:obs=%s" % (g, exp[0], how)


def judge(case, obs):
    """-> (outcome class, None | (kind, oracle text, expected, observed))"""
    exp = case["expected"]
    meta = case["meta"]
    if obs[0] == "harness":
        return "harness", ("harness", obs[1], None, None)
    if obs[0] == "baseexc":
        return "baseexc", ("universal", "a non-Exception BaseException left the render", list(exp), list(obs))
    if exp[0] == "dontcare":
        return "dontcare:" + obs[0], None
    lenient = meta["backing"] == "put" and meta.get("dots")
    if exp[0] == "out":
        if obs[0] == "out":
            if norm_output(obs[1]) == exp[1]:
                return "out-ok", None
            return "out-diff", ("reference", "output differs from the reference interpreter", exp[1], obs[1])
        if lenient and obs[1] == "TemplateLookupException":
            return "dontcare:put-unnormalised", None
        return "exc-unexpected", ("reference", "render raised where the reference produces output", exp[1], list(obs))
    # expected an error
    cls = exp[1]
    if obs[0] == "out":
        return "out-unexpected", ("reference", "render succeeded where %s is required" % cls, list(exp), obs[1])
    if cls == "lookup":
        if obs[1] == "TemplateLookupException":
            return "lookup-ok", None
        if obs[1] == "TopLevelLookupException":
            return "lookup-toplevel", ("toplevel-leak", "unresolvable uri inside a render raised TopLevelLookupException (documented for top-level get_template only)", "TemplateLookupException", list(obs))
        return "lookup-wrongclass", ("reference", "unresolvable uri did not raise TemplateLookupException", "TemplateLookupException", list(obs))
    if cls == "error":
        if obs[1] in ("TemplateLookupException", "TopLevelLookupException"):
            return "error-wrongclass", ("reference", "a lookup exception where every uri resolves", list(exp), list(obs))
        return "error-ok:" + obs[1], None
    if obs[1] == cls:
        return "pyerr-ok:" + cls, None
    return "pyerr-wrongclass", ("reference", "wrong exception class", cls, list(obs))


MANGLED_SIG = "mangled-uri:namespace registry shared by templates whose URIs differ only in non-word characters"


def classify(case, obs, kind):
    """signature of a failure; a g9 failure is attributed to the mangled-module-name registry only if the
    control program (the same templates under URIs that differ in a word character) passes"""
    ctl = case["meta"].get("control")
    if ctl is not None:
        c2 = {"files": ctl["files"], "main": ctl["main"], "ctx": {}, "backing": case["backing"], "expected": ctl["expected"], "meta": {"grid": "g9", "backing": case["backing"], "dots": False}}
        if judge(c2, execute(c2))[1] is None:
            return MANGLED_SIG
    return signature(case, obs, kind)


def check_case(case, st, it=None):
    obs = execute(case)
    st.evaluations += 1
    st.traces += 1
    outcome, v = judge(case, obs)
    st.outcomes[(case["meta"]["grid"], outcome)] += 1
    st.oracles["reference" if case["expected"][0] != "dontcare" else "universal"] += 1
    if case["expected"][0] == "err" and case["expected"][1] == "lookup":
        st.oracles["lookup-exception-class"] += 1
    if v is None:
        return
    kind, text, e, o = v
    if kind == "harness":
        st.extra.setdefault("harness_errors", []).append("%s | %s" % (text, case["meta"]))
        return
    # re-run before reporting (determinism)
    obs2 = execute(case)
    if obs2 != obs:
        st.extra.setdefault("harness_errors", []).append("non-deterministic observation: %r vs %r | %s" % (obs, obs2, case["meta"]))
        return
    st.violation(classify(case, obs, kind), case, kind + ": " + text, expected=e, observed=o)


# --------------------------------------------------------------------------
# jobs


def _shards(tier):
    n = core.NPROC
    per = {"g1": 2 * n, "g2": 2 * n, "g3": n, "g4": 2, "g5": 2 * n, "g6": n, "g7": n, "g8": n // 2, "g9": 2}
    if tier == "thorough":
        per = {"g1": 2 * n, "g2": 2 * n, "g3": n, "g4": 2, "g5": 8 * n, "g6": n, "g7": n, "g8": n // 2, "g9": 2}
    return per


def plan(tier, seed):
    jobs = []
    for g, k in _shards(tier).items():
        for i in range(k):
            jobs.append({"grid": g, "tier": tier, "seed": seed, "shard": i, "nshards": k})
    # heavy grids first; the seed permutes the rest of the order only
    for i in range(12):
        jobs.append({"grid": "g10", "tier": tier, "seed": seed, "shard": i, "nshards": 12})
    jobs.sort(key=lambda j: ({"g10": -1, "g5": 0, "g6": 1, "g1": 2, "g2": 3, "g7": 4, "g3": 5, "g8": 6, "g4": 7, "g9": 8}[j["grid"]], (j["shard"] + seed) % j["nshards"]))
    return jobs


def run_job(job):
    st = Stats()
    t0w, t0c = time.time(), time.process_time()
    seen = set()
    sh, ns = job["shard"], job["nshards"]
    if job["grid"] == "g10":
        for i, c in enumerate(g10_cases(job["tier"])):
            if i % ns == sh:
                g10_check(c, st)
        st.extra["cases_g10"] = st.states
        return st
    for files, M, ctx, meta in cases(job["grid"], job["tier"], job["seed"], sh, ns):
        case, it = make_case(files, M, ctx, meta)
        key = hashlib.sha1(repr((sorted(case["files"].items()), case["main"], sorted(case["ctx"].items()), case["backing"])).encode("utf-8")).digest()
        if key in seen:
            continue
        seen.add(key)
        st.states += 1
        st.transitions += it.hops
        if nontrivial(meta, files, M, it):
            st.nontrivial += 1
        check_case(case, st)
        if st.states % 331 == 1:
            st.sample({"grid": meta["grid"], "main": case["main"], "files": case["files"], "ctx": case["ctx"], "backing": case["backing"], "expected": case["expected"]})
    st.extra["cases_" + job["grid"]] = st.states
    st.extra["cpu_s"] = round(time.process_time() - t0c, 1)
    st.extra["cpu_s_" + job["grid"]] = round(time.process_time() - t0c, 1)
    st.extra["job_wall_s_sum"] = round(time.time() - t0w, 2)
    return st


def replay(case):
    core.bind_repo()
    if case.get("grid") == "g10":
        st = Stats()
        g10_check(case, st)
        if st.violations:
            return False, "reproduced: %r" % (st.violations[0]["observed"],)
        return True, "holds"
    obs = execute(case)
    outcome, v = judge(case, obs)
    if v is None:
        return True, "holds: %s" % outcome
    if v[0] == "harness":
        return None, "harness: " + v[1]
    return False, "reproduced [%s]: %s\n expected=%r\n observed=%r" % (classify(case, obs, v[0]), v[1], v[2], v[3])


# --------------------------------------------------------------------------
# corpus for C08


def _strip_uri_stmts(files):
    """the same program without the statements that print a URI (C08 renders a program under several
    spellings of its main URI, which legitimately changes what .uri prints)"""

    def st(stmts):
        out = []
        for s in stmts:
            if s[0] in ("uri", "probe"):
                continue
            if s[0] == "block":
                s = [s[0], s[1], st(s[2])]
            elif s[0] == "nscall":
                s = [s[0], s[1], s[2], s[3], st(s[4])]
            out.append(s)
        return out

    def df(d):
        return dict(d, body=st(d["body"]))

    res = {}
    for p, f in files.items():
        res[p] = dict(f, body=st(f["body"]), defs=[df(d) for d in f["defs"]], ns=[dict(n, inline=[df(d) for d in n["inline"]]) for n in f["ns"]])
    return res


def corpus(limit=400):
    """representative programs of the smallest non-trivial bound: deterministic, simplest first,
    round-robin over the grids and, inside a grid, over the construct kinds (mechanism / site / probe /
    includer / import mode).  No '.'/'..' URI segments (put_string compares keys unnormalised), no
    statement that prints a URI; at most a fifth of the programs are ones whose render must raise
    ("expected": None)."""
    al = alphabet(0)
    streams = []
    for g in ("g1", "g2", "g3", "g4", "g5"):
        buckets = {}
        order = []
        for meta, thunk in GRIDS[g]("quick", al):
            if g == "g1" and not (meta["d"] in (0, 2) and meta["present"]):
                continue
            if g == "g5" and (meta["k"] > 2 or meta.get("same_name")):
                continue
            if meta.get("strict") or meta.get("name"):
                continue  # need Template(strict_undefined=True) / belong to that block
            files, M, ctx = thunk()
            if uses_dots(files) or any(has_dots(v) for v in ctx.values() if isinstance(v, str)):
                continue  # dot segments behave differently under put_string by design
            kind = (meta.get("mech"), meta.get("site"), meta.get("probe"), meta.get("includer"), meta.get("mechs"), meta.get("imp"), meta.get("page"))
            if kind not in buckets:
                buckets[kind] = []
                order.append(kind)
            if len(buckets[kind]) < 6:
                buckets[kind].append((files, M, ctx, meta))
        rr = []
        i = 0
        while True:
            row = [buckets[k][i] for k in order if i < len(buckets[k])]
            if not row:
                break
            rr.extend(row)
            i += 1
        streams.append(rr)
    out = []
    seen = set()
    pos = [0] * len(streams)
    nerr = 0
    while len(out) < limit and any(pos[i] < len(s) for i, s in enumerate(streams)):
        for i, s in enumerate(streams):
            if pos[i] >= len(s) or len(out) >= limit:
                continue
            files, M, ctx, meta = s[pos[i]]
            pos[i] += 1
            files = _strip_uri_stmts(files)
            exp, _ = R.render(files, M, E.build_ctx(ctx))
            if exp[0] != "out":
                if nerr >= limit // 5:
                    continue
                nerr += 1
            text = IR.print_program(files)
            key = repr((sorted(text.items()), M, sorted(ctx.items())))
            if key in seen:
                continue
            seen.add(key)
            out.append({"files": text, "main": M, "ctx": dict(ctx), "expected": exp[1] if exp[0] == "out" else None, "template_kwargs": {}})
    return out


LEVEL_TEXT = (
    "Every template set of the resolution grid (tag-holding file at depth 0..3, nine URI spellings incl. ./ ../ ../../ absolute and missing, "
    "eleven mechanisms, four places of the tag-holding file in the render, target present or absent, three backings), every presence "
    "combination of the precedence grid, every argument/context combination of the include grid, the module-namespace grid and every "
    "hop chain of the stated length is rendered by the real code and compared with the reference interpreter; complete within those bounds, no sampling."
)
LEVEL_NOTE = "Trusted: CPython eval/exec/inspect, the reference interpreter mc/c07_ref.py (Appendix A6; DONT_CARE elsewhere), the printer mc/c07_ir.py."
