"""C18 - template text round-trips through input and output encodings.

Engine E1, two complete grids, both executed on the real Template / Lexer /
codegen / import machinery:

  (A) "grid": codec x declaration style x carrier x every string of <=k
      characters over a per-codec repertoire x path (bytes, file, module
      directory, module directory re-opened in-process, module directory
      re-opened in a NEW process [, TemplateLookup]) x (output_encoding,
      encoding_errors).
  (B) "neg": for every codec, every byte sequence (all single bytes >= 0x80;
      thorough: all two-byte sequences with a lead byte >= 0x80, plus UTF-8
      three/four byte boundary sequences) inside three ASCII frames: the
      standard library decides decodable / undecodable; undecodable input must
      raise CompileException, decodable input must behave as its decoded text.

  (D) "outenc": template shapes that write one / several pieces x a wide
      alphabet of output encodings (stateful encoders included) x error
      policies: render() == render_unicode().encode(enc, errors) on the whole.
  (E) "tseq": every sequence of <=2 (thorough 3) renders on ONE long-lived
      Template object where earlier renders may raise part way or be
      unencodable: every step judged against the closed form / str.encode.
  (C) "seq": every ordered pair of distinct output configurations (encoding x
      error policy) rendered first / second in a pristine process: state kept
      between renders must not leak from one configuration into the next.

A failure seen in a long-lived worker is reported together with the earlier
case it needs (core.find_prelude), so that it replays in a fresh interpreter.

Oracles are independent of mako: the expected text is bytes.decode() of the
standard library under the codec the *statement* makes effective (comment >
input_encoding > UTF-8; BOM = UTF-8 and must not be contradicted), the expected
output is a closed form of the carrier, the expected render() value is
str.encode(output_encoding, encoding_errors) of the standard library, module
files are decoded with tokenize.detect_encoding.
"""

import codecs
import collections
import io
import itertools
import json
import os
import re
import shutil
import subprocess
import sys
import time
import tokenize
import zlib

from mc import core
from mc.core import Stats

PROPERTY = "C18"
LEVEL = "model_checking"
ENGINE = "E1"
TECHNIQUE = (
    "bounded exhaustive grid codec x declaration x carrier x strings x path x output configuration, plus the complete "
    "one-/two-byte negative grid per codec, each executed on the real Template (memory, file, module file, re-import, "
    "fresh process) against stdlib decode/encode and closed-form outputs"
)
LEVEL_TEXT = (
    "Every cell of the grid 11 codecs (10 + UTF-8 with BOM) x declaration styles (## comment, # comment, input_encoding, both "
    "agreeing, both conflicting, none; thorough also vim-style / CRLF / alias-spelled comments and a second conflict; BOM "
    "variants incl. alias spellings, contradicting comments and BOM + input_encoding) x carriers (text, <% %> literal, "
    "def-argument default; thorough also ${'lit'}, <%text>, ## comment, <%! %>) x every string of <=2 characters over a "
    "4-character per-codec repertoire (thorough: <=3 over 4 characters plus <=2 over 5 = 94 strings for the ten general styles, "
    "30 for the BOM-specific variants) x paths (bytes, file, module directory, re-opened, re-opened in a fresh interpreter; "
    "thorough also TemplateLookup) x 5 / 6 output configurations is compiled and rendered by the real code (quick: the three "
    "error-handler outputs are crossed with the bytes and module-directory paths only); and every single byte >= 0x80 "
    "(thorough: every two-byte sequence with a high lead byte, UTF-8 3/4-byte boundary sequences) of every codec is fed "
    "through three frames and two paths (a fourth frame puts the bytes first in the template, directly behind the BOM).  "
    "The BOM codec additionally gets, under every BOM declaration style, templates whose first character is U+FF21, U+FEFF, "
    "U+FFFB, U+F000 (UTF-8 lead byte EF like the BOM) or U+EFFF.  Declaration-style dimension 'long comment': the coding "
    "comment padded like an editor modeline, after or before the coding: token, to a first line of exactly 40, 99, 100, 101, "
    "128, 300 and 1100 bytes, as sole declaration, agreeing and conflicting with input_encoding, and contradicting a BOM "
    "(quick: koi8-r, shift_jis, cp1252, utf-8+BOM; thorough: every codec).  Coding comment lines that also carry "
    "characters of the codec (behind / in front of the declaration) for every codec.  Output side: template shapes writing "
    "one / several pieces (text+expression, loop, def call, buffered def, inheritance) x 11 (thorough 24) output encodings "
    "including encoders that are stateful across the text (utf-16, utf-32, utf-8-sig, iso2022_jp, hz, utf-7) x 4 (7) error "
    "policies x strings x memory / module file / lookup.  A coding comment on line 2 (below a '#'-text, '##', blank or "
    "plain first line) is no declaration: it must neither change the decoding nor swallow the first line.  Histories of "
    "<=2 (3) renders on one long-lived Template object (directly and through a TemplateLookup collection) whose earlier "
    "steps may raise part way or fail to encode.  Every ordered pair of distinct output configurations "
    "(2 encodings x 4 error policies, thorough 4 x 7) is rendered first/second in a pristine process.  Complete within "
    "those bounds; no sampling."
)
LEVEL_NOTE = (
    "Trusted: CPython codecs (bytes.decode / str.encode / codecs.lookup), tokenize.detect_encoding, the import system, the "
    "closed forms of the seven carriers.  The handler 'htmlentityreplace' is the one mako registers: the statement only fixes "
    "render() == render_unicode().encode(enc, errors), so the handler's own output is C10's subject (only counted here)."
)
RULE = (
    "grid: one state per distinct (source bytes, input_encoding, path, output_encoding, encoding_errors); source bytes = "
    "[BOM] + [coding comment line] + carrier(L) encoded in the codec, L ranging over every string of <=k characters of the "
    "codec's repertoire (identical byte strings reached from different codecs are counted once).  neg: one state per "
    "(codec, declaration, byte sequence, frame, path).  seq: one state per ordered pair of output configurations.  Non-trivial = the source bytes contain a byte >= 0x80 or a BOM, or "
    "the two declarations conflict (i.e. the decoding decision is observable)."
)
ASSUMPTIONS = [
    "the effective codec fixed by the statement is: coding comment, else input_encoding, else UTF-8; a UTF-8 BOM means UTF-8 and is stripped",
    "DONT_CARE: BOM + input_encoding naming a non-UTF-8 codec without a comment (statement fixes no precedence): CompileException or any of the two decodings is accepted",
    "DONT_CARE: BOM + comment spelled utf8 / U8 / utf-8-sig (PEP 263 / CPython itself rejects or special-cases these spellings): CompileException or the UTF-8 decoding is accepted; spellings CPython normalises to utf-8 (UTF-8, utf_8, Utf-8) must be accepted",
    "DONT_CARE: Template.source of BOM input may or may not start with U+FEFF",
    "unknown codec names (LookupError today) are outside the statement ('any ASCII-compatible encoding') and not enumerated",
    "module file: only 'bytes decode with the codec named in the file's own coding comment to the in-memory module text' is demanded, not which codec mako chooses",
    "the fresh-process path is executed in batches (one child interpreter per <=400 source cases); the child only opens existing module files (inode must be unchanged)",
    "the correctness of the 'htmlentityreplace' error handler itself is not judged here (C10); occurrences of the b'...' artefact are counted in the evidence",
    "order dependence: workers are long-lived; a failing cell is re-run in a fresh interpreter alone and after the first cell that used each other output configuration / a few recent cells (core.find_prelude); a fresh-process (newproc) failure that disappears when its entry is run in a child of its own is an artefact of batching and only counted",
    "a coding comment below the first line is content, not a declaration (statement: 'on its first line'): '##' lines vanish, other lines are literal text; first lines containing the word 'coding' are not enumerated",
    "sequence family: the first render of a pristine process and the second one after a different output configuration; longer histories are not enumerated",
    "CPython codecs, tokenize and import are trusted; characters are drawn from pools of interchangeable values by VERIF_SEED",
]
BOUNDS = {
    "quick": {
        "codecs": 11, "repertoire": 4, "max_chars": 2, "strings": 20, "carriers": "3 (+ 'lead' for utf-8+BOM)", "declarations": "6 (+6 BOM variants)",
        "paths": "bytes,file,mod,reopen,newproc for outputs (None),(same codec,strict); bytes,mod for the 3 error-handler outputs",
        "outputs": 5, "neg": "all single bytes >=0x80 x 3 frames (4 for utf-8 and utf-8+BOM: also first-in-template) x 2 paths x {comment,input_encoding[,none]}",
        "bom_lead": "carrier 'lead' x all 12 BOM declaration styles x 20 strings starting with U+FF21/U+FEFF/U+FFFB/U+F000/U+EFFF (+6 ordinary)",
        "seq": "ordered pairs of distinct (encoding, policy) over {ascii, latin-1, utf-16} x {strict, replace, xmlcharrefreplace, htmlentityreplace}: 132, several-write template",
        "nonascii_comment": "coding comment line carrying characters of the codec behind / in front of the declaration x {sole, conflicting input_encoding} x 11 codecs x text carrier x 4 strings x 5 paths x 2 plain outputs",
        "line2": "coding comment on line 2 ('##' or '#', LF / CRLF) below a '#'-text, '##'-comment, blank or plain-text first line, with input_encoding (comment names another codec) and without (comment names the true codec) x codecs utf-8, koi8-r, shift_jis, latin-1, utf-8+BOM x text carrier x 4 strings x 5 paths x 2 plain outputs",
        "tseq": "every sequence of 2 steps over 9 steps (render / render_unicode / get_def().render; succeeding, raising part way, not encodable) on ONE Template object x 6 output configurations x {Template, TemplateLookup collection}: 972",
        "outenc": "5 template shapes (one write, text+expr, loop, def call, inheritance) x 11 output encodings (utf-16/32, utf-8-sig, utf-16-le/be, utf-8, ascii, latin-1, shift_jis, iso2022_jp, utf-7) x 4 policies x 4 strings x {memory, module file}: 1760",
        "reload": "one file re-declared between loads through one TemplateLookup: ordered pairs a,b,a of 7 declaration kinds (coding comments, BOM, UTF-8 default, lookup input_encoding, comment over input_encoding) x lookup input_encoding {none, cp1251} x module directory on/off: 100 histories",
        "modopt": "8 option sets that add lines to the module head (future_imports, imports, strict_undefined, ...) x 5 non-UTF-8 codecs x {comment, input_encoding} x 3 bodies, first generation and re-load of the module file",
        "outenc_nothing": "5 template shapes that write nothing / only empty strings",
        "long_comment": "first line of exactly {40,99,100,101,128,300,1100} bytes x padding after/before the coding: token x {comment, both agreeing, both conflicting, BOM contradicted} x codecs koi8-r, shift_jis, cp1252, utf-8+BOM x text carrier x 4 strings x 5 paths x 2 plain outputs",
    },
    "thorough": {
        "codecs": 11, "repertoire": 5, "max_chars": 3,
        "strings": "94 (<=3 over 4 chars + <=2 over 5 chars) for the ten general declaration styles, 30 (<=2 over 5 chars) for the 17 BOM-specific variants",
        "carriers": 8, "declarations": "10 (+17 BOM variants)",
        "paths": "bytes,file,mod,reopen,newproc,lookup", "outputs": 6,
        "neg": "single bytes as quick (4 frames for all codecs) + all two-byte sequences with lead >=0x80 (frame mid, comment) + UTF-8 3/4-byte boundary sequences, the 3-byte ones also directly behind the BOM",
        "bom_lead": "carrier 'lead' for every codec; for utf-8+BOM additionally all 27 declaration styles x 20 special-first-character strings",
        "long_comment": "as quick for all 11 codecs, a third padding with a non-ASCII character of the codec, BOM contradicted by 3 codecs, carriers text+defattr, 6 strings, 6 paths",
        "seq": "ordered pairs over {ascii, latin-1, cp1252, shift_jis, utf-16, utf-8-sig} x {strict, replace, xmlcharrefreplace, htmlentityreplace, ignore, backslashreplace, namereplace}: 1722",
        "nonascii_comment": "as quick + characters on both sides + agreeing input_encoding, carriers text+defattr, 6 strings, 6 paths",
        "line2": "as quick for all 11 codecs, all LF/CRLF combinations, also a shebang first line, carriers text+defattr, 6 strings, 6 paths",
        "tseq": "every sequence of 2 and 3 steps over 11 steps x 11 output configurations x {Template, TemplateLookup collection}: 31944",
        "reload": "as quick", "modopt": "as quick",
        "outenc": "6 shapes (+ buffered def) x 24 output encodings x 7 policies x 6 strings x {memory, module file, TemplateLookup}: 16128",
    },
}
READY = True

BOM = codecs.BOM_UTF8

CODECS = ["ascii", "utf-8", "latin-1", "cp1251", "cp1252", "koi8-r", "shift_jis", "euc-jp", "gb2312", "iso-8859-15", "utf-8-bom"]

ALIAS = {
    "ascii": "us-ascii", "utf-8": "UTF-8", "latin-1": "iso-8859-1", "cp1251": "windows-1251", "cp1252": "windows-1252",
    "koi8-r": "KOI8-R", "shift_jis": "sjis", "euc-jp": "eucjp", "gb2312": "euc-cn", "iso-8859-15": "latin9",
}

_ASCII_L = ["a", "b", "z", "Q"]
# per codec: 5 slots (the 5th only in the thorough tier), each a pool of 4 interchangeable characters
POOLS = {
    "ascii": [_ASCII_L, ["0", "7", "3", "9"], ["~", "^", "!", "@"], ["&", "*", "+", "="], ["_", ";", ":", ","]],
    "utf-8": [_ASCII_L, ["é", "ß", "ж", "ñ"], ["中", "€", "ソ", "あ"],
              ["\U0001d11e", "\U0001f600", "\U00010348", "\U00020000"], [" ", " ", "\u0085", "﻿"]],
    "latin-1": [_ASCII_L, ["é", "ß", "ñ", "ü"], [" ", "­", "·", "×"],
                ["ÿ", "þ", "÷", "Ð"], ["\u0085", "\u0080", "\u009f", "\u0091"]],
    "cp1251": [_ASCII_L, ["ж", "Я", "ё", "Ђ"], ["№", "«", "»", "©"],
               ["€", "…", "‰", "—"], [" ", "­", "ѓ", "џ"]],
    "cp1252": [_ASCII_L, ["é", "ß", "ñ", "ü"], ["€", "“", "”", "™"],
               ["Š", "œ", "Ÿ", "ž"], [" ", "­", "ˆ", "˜"]],
    "koi8-r": [_ASCII_L, ["ж", "Я", "ё", "Ю"], ["─", "│", "┌", "═"],
               ["©", "°", "²", "÷"], [" ", "■", "≈", "⌡"]],
    # slot 2: trail byte 0x5C (backslash); slot 3: trail byte 0x7B/0x7C/0x7D ({ | }); slot 4: single-byte katakana
    "shift_jis": [_ASCII_L, ["ソ", "表", "噂", "十"], ["ボ", "ポ", "マ", "施"],
                  ["ｱ", "ｲ", "ｳ", "ｶ"], ["あ", "日", "　", "語"]],
    # slot 3: SS2 two-byte katakana; slot 4: SS3 three-byte JIS X 0212
    "euc-jp": [_ASCII_L, ["あ", "日", "ソ", "表"], ["ｱ", "ｲ", "ｳ", "ｶ"],
               ["©", "À", "É", "®"], ["　", "、", "。", "・"]],
    "gb2312": [_ASCII_L, ["中", "文", "啊", "汉"], ["α", "β", "а", "б"],
               ["、", "。", "…", "～"], ["　", "①", "§", "〓"]],
    "iso-8859-15": [_ASCII_L, ["€", "Š", "š", "Ž"], ["é", "ß", "ñ", "ü"],
                    ["œ", "Œ", "Ÿ", "ž"], [" ", "­", "\u0085", "\u009f"]],
}
POOLS["utf-8-bom"] = POOLS["utf-8"]


def true_codec(codec):
    return "utf-8" if codec == "utf-8-bom" else codec


def repertoire(codec, seed, nslots):
    rep = [POOLS[codec][i][(seed + i) % 4] for i in range(nslots)]
    enc = true_codec(codec)
    for c in rep:
        assert c.encode(enc).decode(enc) == c, (codec, c)
    return rep


def strings(rep, maxlen):
    for n in range(1, maxlen + 1):
        for w in itertools.product(rep, repeat=n):
            yield "".join(w)


# carrier: (template source around L, closed-form output, closed-form of get_def('f') or None)
CARRIERS = {
    "text": (lambda L: "[x" + L + "y]\n", lambda L: "[x" + L + "y]\n"),
    "expr": (lambda L: "[${'" + L + "'}]\n", lambda L: "[" + L + "]\n"),
    "pyblock": (lambda L: "[<% s = '" + L + "' %>${s}]\n", lambda L: "[" + L + "]\n"),
    "defattr": (lambda L: "[<%def name=\"f(a='" + L + "')\">${a}</%def>${f()}]\n", lambda L: "[" + L + "]\n"),
    "texttag": (lambda L: "[<%text>" + L + "</%text>]\n", lambda L: "[" + L + "]\n"),
    "comment": (lambda L: "[\n## " + L + "\n]\n", lambda L: "[\n]\n"),
    "module": (lambda L: "<%! M = '" + L + "' %>[${M}]\n", lambda L: "[" + L + "]\n"),
    # L is the very first text of the template (directly behind the BOM when there is no comment line)
    "lead": (lambda L: L + "[y]\n", lambda L: L + "[y]\n"),
}
CARRIERS_QUICK = ["text", "pyblock", "defattr"]  # + "lead" for the BOM codec
CARRIERS_THOROUGH = ["text", "expr", "pyblock", "defattr", "texttag", "comment", "module", "lead"]

# first characters behind a UTF-8 BOM whose own UTF-8 lead byte is 0xEF (the BOM's first byte), a content U+FEFF,
# and a control whose lead byte is 0xEE
BOM_LEAD_CHARS = ["\uff21", "\ufeff", "\ufffb", "\uf000", "\uefff"]

OUTS_QUICK = [(None, "strict"), ("SAME", "strict"), ("ascii", "replace"), ("ascii", "xmlcharrefreplace"), ("latin-1", "htmlentityreplace")]
OUTS_THOROUGH = OUTS_QUICK + [("ascii", "strict")]

PATHS_QUICK = ["bytes", "file", "mod", "reopen", "newproc"]
# quick tier: the three error-handler output configurations are crossed with these paths only
PATHS_QUICK_LITE = ["bytes", "mod"]
PATHS_THOROUGH = ["bytes", "file", "mod", "reopen", "newproc", "lookup"]


def _total_other(x):
    # a codec that decodes every byte, to a different text
    return "koi8-r" if x != "koi8-r" else "latin-1"


LONG_LENGTHS = [40, 99, 100, 101, 128, 300, 1100]  # bytes of the first line, terminator included
LONG_CODECS_QUICK = ["koi8-r", "shift_jis", "cp1252", "utf-8-bom"]
_FILLER = "-*- mode: mako; fill-column: 100; indent-tabs-mode: nil; tab-width: 4 -*- "


def long_header(x, n, pos, ch=None):
    """A coding comment line of exactly n bytes (in codec x, newline included), padded after ('a') or before ('b') the
    coding: token, as an editor modeline would; ch = a character of the codec put into the padding."""
    if pos == "a":
        head, tail = "## coding: %s; " % x, "\n"
    else:
        head, tail = "## ", "; coding: %s\n" % x
    extra = ch or ""
    need = n - len((head + tail + extra).encode(x))
    assert need >= 0, (x, n, pos)
    fill = (_FILLER * (need // len(_FILLER) + 1))[:need]
    line = head + extra + fill + tail
    assert len(line.encode(x)) == n and line.count("coding") == 1
    return line


def long_decls(codec, tier, seed=0):
    """declaration-style dimension 'long comment': name long-<style>:<n>:<pos>"""
    x = true_codec(codec)
    quick = tier == "quick"
    if quick and codec not in LONG_CODECS_QUICK:
        return []
    out = []
    poss = ["a", "b"] if quick else ["a", "b", "c"]
    for n in LONG_LENGTHS:
        for pos in poss:
            ch = None
            if pos == "c":
                ch = repertoire(codec, seed, 4)[1]
            h = long_header(x, n, "a" if pos == "c" else pos, ch)
            out.append(("long-comment:%d:%s" % (n, pos), h, x, None))
            out.append(("long-both:%d:%s" % (n, pos), h, x, x))
            out.append(("long-conflict:%d:%s" % (n, pos), h, x, _total_other(x)))
            if codec == "utf-8-bom":
                for c in (["koi8-r"] if quick else ["koi8-r", "latin-1", "shift_jis"]):
                    out.append(("long-bomconflict:%s:%d:%s" % (c, n, pos), long_header(c, n, "a" if pos == "c" else pos, None), c, None))
    return out


def nonascii_comment_decls(codec, tier, seed=0):
    """coding comment lines that also carry characters of the codec, behind ('tail') or in front of ('head') the
    declaration, e.g. '## -*- coding: koi8-r -*- <title in Russian>'; name nonascii-<style>:<where>"""
    x = true_codec(codec)
    r = repertoire(codec, seed, 4)
    words = {"tail": "## -*- coding: %s -*- " + r[1] + r[2] + " " + r[3] + "\n",
             "head": "## " + r[2] + r[1] + " -*- coding: %s -*-\n",
             "both": "## " + r[3] + " coding: %s " + r[1] + r[1] + r[2] + "\n"}
    out = []
    for where in (("tail", "head") if tier == "quick" else ("tail", "head", "both")):
        h = words[where] % x
        out.append(("nonascii-comment:" + where, h, x, None))
        out.append(("nonascii-conflict:" + where, h, x, _total_other(x)))
        if tier != "quick":
            out.append(("nonascii-both:" + where, h, x, x))
    return out


LINE2_FIRST = {"hash": "# Release notes", "mako": "## a note", "blank": "", "text": "Release notes", "shebang": "#!/usr/bin/env mako-render"}
LINE2_CODECS_QUICK = ["utf-8", "koi8-r", "shift_jis", "latin-1", "utf-8-bom"]


def line2_decls(codec, tier):
    """A coding comment that is NOT on the first line is no declaration: ordinary content (text for a single '#', dropped
    for '##') that must not change the decoding; the first line above it must stay.  name line2-<ie|none>:<first>:<second>:<nl>"""
    x = true_codec(codec)
    quick = tier == "quick"
    if quick and codec not in LINE2_CODECS_QUICK:
        return []
    out = []
    firsts = ["hash", "mako", "blank", "text"] if quick else list(LINE2_FIRST)
    for first in firsts:
        for nl in ("lf", "crlf"):
            if quick and nl == "crlf" and first != "hash":
                continue
            e = "\n" if nl == "lf" else "\r\n"
            for second in ("##", "#"):
                # with input_encoding = the true codec the later comment names another codec; without input_encoding it
                # names the true codec (which then must NOT be honoured: UTF-8 is the default)
                for kind, named, ie in (("ie", _total_other(x), x), ("none", x, None)):
                    h = LINE2_FIRST[first] + e + "%s -*- coding: %s -*-" % (second, named) + e
                    out.append(("line2-%s:%s:%s:%s" % (kind, first, second, nl), h, None, ie))
    return out


def header_output(declname, header):
    """What the lines above the carrier contribute to the output: nothing for a first-line coding comment; for the
    line2 styles every line that is not a '##' comment line is literal text (documented rules only)."""
    if not declname.startswith("line2-"):
        return ""
    out = []
    for line in header.splitlines(True):
        if not line.startswith("##"):
            out.append(line)
    return "".join(out)


def is_special(declname):
    # declaration styles crossed with a reduced set of carriers / strings / output configurations
    return declname.startswith(("long-", "nonascii-", "line2-"))


def decls(codec, tier, seed=0, with_long=True):
    """-> list of (name, header text, comment codec spelling or None, input_encoding or None)"""
    x = true_codec(codec)
    thorough = tier != "quick"
    out = [
        ("comment", "## -*- coding: %s -*-\n" % x, x, None),
        ("comment1", "# -*- coding: %s -*-\n" % x, x, None),
        ("ie", "", None, x),
        ("both", "## -*- coding: %s -*-\n" % x, x, x),
        ("conflict-total", "## -*- coding: %s -*-\n" % x, x, _total_other(x)),
        ("none", "", None, None),
    ]
    if thorough:
        out += [
            ("conflict-ascii", "## -*- coding: %s -*-\n" % x, x, "ascii" if x != "ascii" else "utf-8"),
            ("comment-vim", "## vim: set fileencoding=%s :\n" % x, x, None),
            ("comment-crlf", "## -*- coding: %s -*-\r\n" % x, x, None),
            ("comment-alias", "## -*- coding: %s -*-\n" % ALIAS[x], ALIAS[x], None),
        ]
    if codec == "utf-8-bom":
        must = ["UTF-8"] + (["utf_8", "Utf-8"] if thorough else [])
        dc = ["utf8"] + (["U8", "utf-8-sig"] if thorough else [])
        for a in must + dc:
            out.append(("bomalias:" + a, "## -*- coding: %s -*-\n" % a, a, None))
        conf = [c for c in CODECS if c not in ("utf-8", "utf-8-bom")] if thorough else ["latin-1", "ascii", "shift_jis"]
        for c in conf:
            out.append(("bomconflict:" + c, "## -*- coding: %s -*-\n" % c, c, None))
        for c in (["koi8-r", "ascii"] if thorough else ["koi8-r"]):
            out.append(("bom+ie:" + c, "", None, c))
    if with_long:
        out += long_decls(codec, tier, seed)
        out += nonascii_comment_decls(codec, tier, seed)
        out += line2_decls(codec, tier)
    return out


# --------------------------------------------------------------------------
# reference (standard library only)


def _pep263_normal(name):
    n = name.lower().replace("_", "-")
    return n


def reference(raw, comment_codec, ie):
    """What the statement fixes for these bytes.
    -> ("ok", text) | ("error",) | ("dontcare", [acceptable texts])   (dontcare also accepts CompileException)
    """
    bom = raw.startswith(BOM)
    body = raw[len(BOM):] if bom else raw
    eff = None
    if bom:
        if comment_codec is not None:
            canon = codecs.lookup(comment_codec).name
            n = _pep263_normal(comment_codec)
            if n == "utf-8":
                eff = "utf-8"
            elif canon in ("utf-8", "utf-8-sig"):
                alts = []
                try:
                    alts.append(body.decode("utf-8"))
                except UnicodeDecodeError:
                    pass
                return ("dontcare", alts)
            else:
                return ("error",)
        elif ie is not None and codecs.lookup(ie).name != "utf-8":
            alts = []
            for c in ("utf-8", ie):
                try:
                    alts.append(body.decode(c))
                except UnicodeDecodeError:
                    pass
            return ("dontcare", alts)
        else:
            eff = "utf-8"
    else:
        eff = comment_codec or ie or "utf-8"
    try:
        return ("ok", body.decode(eff))
    except UnicodeDecodeError:
        return ("error",)


def expected_render(u, enc, err):
    """-> ("str", u) | ("bytes", b) | ("raise", excname)   -- str.encode of the standard library"""
    if enc is None:
        return ("str", u)
    try:
        return ("bytes", u.encode(enc, err))
    except UnicodeError as e:
        return ("raise", type(e).__name__)


_NORM = [
    (re.compile(r"\A# -\*- coding:[^\n]*\n"), ""),
    (re.compile(r"^_modified_time = .*$", re.M), "_modified_time = T"),
    (re.compile(r"^_template_uri = .*$", re.M), "_template_uri = U"),
    (re.compile(r"^_template_filename = .*$", re.M), "_template_filename = F"),
    (re.compile(r'\{"filename": .*?, "uri": .*?, "source_encoding"'), '{"filename": F, "uri": U, "source_encoding"'),
    # module line numbers shift by one when the module file carries its coding comment line
    (re.compile(r'"line_map": \{[^}]*\}'), '"line_map": M'),
]


def _canon(m):
    try:
        return m.group(1) + codecs.lookup(m.group(2)).name + m.group(3)
    except LookupError:
        return m.group(0)


# the statement does not fix how mako spells the codec it records (BOM + 'UTF-8' may be recorded as utf-8 or UTF-8)
_SRCENC = [
    re.compile(r"^(_source_encoding = ')([^'\n]*)(')$", re.M),
    re.compile(r'("source_encoding": ")([^"\n]*)(")'),
]


def norm_code(code):
    for r, s in _NORM:
        code = r.sub(s, code)
    for r in _SRCENC:
        code = r.sub(_canon, code)
    return code


# --------------------------------------------------------------------------
# execution on the real library


class Env:
    """scratch directories + pending fresh-process entries of one worker"""

    def __init__(self):
        self.root = core.scratch_dir("c18")
        self.n = 0
        self.total = 0
        self.pending = []  # (entry for the child, judge closure data)
        self.search = False  # worker mode: look for the earlier case an order-dependent failure needs
        self.recent = collections.deque(maxlen=50)  # the last cells this process executed (case dicts)
        self.reported = set()  # base signatures already written out by this worker
        self.firstuse = {}  # (output_encoding, encoding_errors) -> the first cell this process rendered with it
        self.found = []  # preludes that explained an earlier failure of this worker (tried first)
        self.fresh()

    def fresh(self):
        self.n += 1
        self.dir = os.path.join(self.root, "b%d" % self.n)
        self.tdir = os.path.join(self.dir, "t")
        self.mdir = os.path.join(self.dir, "m")
        self.ldir = os.path.join(self.dir, "lm")
        os.makedirs(self.tdir)
        os.makedirs(self.mdir)
        self.count = 0

    def drop(self):
        shutil.rmtree(self.dir, ignore_errors=True)
        self.fresh()


def _render_obs(t, obs, st):
    st.transitions += 2
    u = t.render_unicode()
    obs["u"] = u
    try:
        obs["r"] = t.render()
    except UnicodeError as e:
        obs["r_exc"] = type(e).__name__
    st.transitions += 1
    obs["src"] = t.source


def exec_path(path, raw, fn, name, kw, env, st, want_code=True, with_def=False):
    """One construct + render_unicode + render + source (+code) on one path.  -> obs dict"""
    from mako.template import Template

    obs = {}
    st.evaluations += 1
    st.transitions += 1
    st.traces += 1
    try:
        if path == "bytes":
            t = Template(raw, uri="b_" + name, **kw)
        elif path == "file":
            t = Template(filename=fn, uri="f_" + name, **kw)
        elif path in ("mod", "reopen"):
            mpath = os.path.join(env.mdir, name + ".py")
            if path == "reopen":
                obs["ino0"] = os.stat(mpath).st_ino if os.path.exists(mpath) else None
            t = Template(filename=fn, uri=name, module_directory=env.mdir, **kw)
            obs["mpath"] = mpath
            if path == "reopen":
                obs["ino1"] = os.stat(mpath).st_ino if os.path.exists(mpath) else None
        elif path == "lookup":
            from mako.lookup import TemplateLookup

            lk = TemplateLookup(directories=[env.tdir], module_directory=env.ldir, **kw)
            t = lk.get_template(os.path.basename(fn))
        else:
            raise AssertionError(path)
        _render_obs(t, obs, st)
        if want_code:
            st.transitions += 1
            obs["code"] = t.code
        if with_def:
            st.transitions += 2
            d = t.get_def("f")
            obs["def_u"] = d.render_unicode()
            try:
                obs["def_r"] = d.render()
            except UnicodeError as e:
                obs["def_r_exc"] = type(e).__name__
    except RecursionError:
        raise
    except Exception as e:  # noqa
        obs["exc"] = [type(e).__name__, str(e)[:200]]
    return obs


_CHILD = r"""
import sys, json, os
sys.path.insert(0, %(repo)r)
from mako.template import Template
def J(v):
    if isinstance(v, str):
        return v
    if isinstance(v, bytes):
        return {"__bytes__": v.hex()}
    return {"__repr__": repr(v)}
ents = json.load(sys.stdin)
for e in ents:
    res = {}
    try:
        ino = os.stat(e["mpath"]).st_ino if os.path.exists(e["mpath"]) else None
        res["ino0"] = ino
        t = Template(filename=e["fn"], uri=e["uri"], module_directory=e["md"], **e["kw"])
        res["ino1"] = os.stat(e["mpath"]).st_ino if os.path.exists(e["mpath"]) else None
        res["u"] = J(t.render_unicode())
        try:
            res["r"] = J(t.render())
        except UnicodeError as x:
            res["r_exc"] = type(x).__name__
        res["src"] = J(t.source)
        if e.get("with_def"):
            d = t.get_def("f")
            res["def_u"] = J(d.render_unicode())
            try:
                res["def_r"] = J(d.render())
            except UnicodeError as x:
                res["def_r_exc"] = type(x).__name__
    except BaseException as x:
        res["exc"] = [type(x).__name__, str(x)[:200]]
    print(json.dumps(res))
"""


def run_child(entries, st):
    """-> list of obs dicts (same order) or None on harness trouble"""
    code = _CHILD % {"repo": os.path.abspath(core.REPO)}
    pr = subprocess.run([sys.executable, "-c", code], input=json.dumps(entries), capture_output=True, text=True)
    lines = [l for l in pr.stdout.splitlines() if l.startswith("{")]
    if pr.returncode != 0 or len(lines) != len(entries):
        st.extra.setdefault("harness_errors", []).append(
            "fresh-process child failed: rc=%s got %d of %d lines; err=%s" % (pr.returncode, len(lines), len(entries), pr.stderr[-600:])
        )
        return None
    out = []
    for l in lines:
        d = json.loads(l)
        for k, v in list(d.items()):
            if isinstance(v, dict):
                d[k] = bytes.fromhex(v["__bytes__"]) if "__bytes__" in v else v["__repr__"]
        out.append(d)
    return out


# --------------------------------------------------------------------------
# reporting (order-dependent failures get the earlier case they need: core.find_prelude)

ORDER_SUFFIX = "|after an earlier case in the same process"


def report(st, env, sig, case, oracle, expected=None, observed=None):
    """case["sig"] is the base signature replay() compares with.  In a worker only the first failure per signature
    is written out (with its prelude); the others are counted."""
    if env is None or not env.search:
        st.violation(sig, case, oracle, expected=expected, observed=observed)
        return
    if sig in env.reported:
        key = sig + ORDER_SUFFIX if (sig + ORDER_SUFFIX) in st.sigcount else sig
        st.sigcount[key] += 1
        return
    env.reported.add(sig)
    # candidates, least promising first (find_prelude walks the list backwards): a few recent cells, the first cell
    # rendered with each other output configuration, those with the same output encoding, preludes found before
    out = tuple(case.get("out") or ())
    cand = list(env.recent)[-3:]
    cand += [c for k, c in env.firstuse.items() if k != out and k[0] != (out[0] if out else None)]
    cand += [c for k, c in env.firstuse.items() if k != out and k[0] == (out[0] if out else None)]
    cand += env.found
    prelude = core.find_prelude("mc.props.c18", case, cand, max_tries=10)
    if prelude and prelude[0] not in env.found:
        env.found.append(prelude[0])
    if prelude:
        case = dict(case, prelude=prelude)
        sig = sig + ORDER_SUFFIX
    elif prelude is None:
        st.extra["candidates_not_reproduced_in_a_fresh_interpreter"] = st.extra.get("candidates_not_reproduced_in_a_fresh_interpreter", 0) + 1
    st.violation(sig, case, oracle, expected=expected, observed=observed)


# --------------------------------------------------------------------------
# judging one observation


def _pathclass(path):
    return {"bytes": "direct", "file": "direct", "mod": "modfile", "reopen": "modfile-reopen", "newproc": "modfile-reopen",
            "lookup": "lookup"}[path]


class Judge:
    def __init__(self, st, case_base, declname, exp, closed, closed_def, ref_u, ref_code, bom, env=None):
        self.st = st
        self.env = env
        self.case_base = case_base
        self.declname = declname
        self.exp = exp
        self.closed = closed
        self.closed_def = closed_def
        self.ref_u = ref_u
        self.ref_code = ref_code
        self.bom = bom
        self._failed = False
        self.any_failed = False
        self.verify_alone = None

    def viol(self, oracle, path, out, detail, expected=None, observed=None):
        # one report per observation: the first oracle that fails (later ones are consequences)
        if self._failed:
            return
        self._failed = True
        self.any_failed = True
        d = self.declname
        if is_special(d):
            dc = d.split(":")[0]  # the lengths / padding side are in the case, not in the footprint
        elif d.startswith("bom"):
            dc = d
        elif d.startswith("conflict"):
            dc = "conflicting"
        elif d == "none":
            dc = "none"
        else:
            dc = "declared"
        if oracle in ("render_type", "render_encode", "def_template", "render_unicode_type", "render_unicode_varies"):
            # output side: the declaration style plays no part
            sig = "%s|path=%s|%s" % (oracle, _pathclass(path), detail)
        elif oracle == "outcome" and (d.startswith("bom") or d.startswith("long-bom")):
            # decided while decoding, before any path-specific code runs: one footprint for all paths
            sig = "%s|decl=%s|%s" % (oracle, dc, detail)
        else:
            sig = "%s|decl=%s|path=%s|%s" % (oracle, dc, _pathclass(path), detail)
        case = dict(self.case_base)
        case.update({"path": path, "out": list(out), "sig": sig})
        if path == "newproc" and self.verify_alone is not None and not self.verify_alone():
            # fails only after the other entries of the batched child: an artefact of batching, not of a fresh process
            self.st.extra["newproc_batch_order_artefacts"] = self.st.extra.get("newproc_batch_order_artefacts", 0) + 1
            return
        report(self.st, self.env, sig, case, oracle, expected, observed)

    def judge(self, path, out, obs, alt_refs=None):
        """-> outcome class"""
        st = self.st
        self._failed = False
        kind = self.exp[0]
        exc = obs.get("exc")
        st.oracles["outcome_class"] += 1
        if kind == "error":
            if exc is None:
                self.viol("outcome", path, out, "undecodable-or-contradicted input accepted", "CompileException", {"render_unicode": obs.get("u")})
                return "accepted!"
            if exc[0] != "CompileException":
                self.viol("outcome", path, out, "wrong exception " + exc[0], "CompileException", exc)
                return "exc:" + exc[0]
            return "CompileException"
        if kind == "dontcare":
            if exc is not None:
                if exc[0] != "CompileException":
                    self.viol("outcome", path, out, "wrong exception " + exc[0], "CompileException or a decoding", exc)
                return "dc:" + exc[0]
            st.oracles["dontcare_universal"] += 1
            if obs.get("u") not in (alt_refs or []):
                self.viol("universal", path, out, "output is no declared decoding", alt_refs, obs.get("u"))
            self._render_oracle(path, out, obs)
            return "dc:ok"
        # kind == ok
        text = self.exp[1]
        if exc is not None:
            self.viol("outcome", path, out, "raised " + exc[0], "compiles like its decoded text", exc)
            return "exc!:" + exc[0]
        u = obs.get("u")
        if not isinstance(u, str):
            self.viol("render_unicode_type", path, out, "render_unicode returned " + type(u).__name__, "str", repr(u))
            return "u:" + type(u).__name__
        st.oracles["closed_form"] += 1
        st.oracles["text_equiv"] += 1
        if u != self.closed:
            self.viol("closed_form", path, out, "output differs", self.closed, u)
        elif u != self.ref_u:
            self.viol("text_equiv", path, out, "output differs from Template(decoded text)", self.ref_u, u)
        st.oracles["source"] += 1
        src = obs.get("src")
        if not (src == text or (self.bom and src == "﻿" + text)):
            self.viol("source", path, out, "Template.source is not the decoded text", text, src)
        if "code" in obs:
            st.oracles["module_text"] += 1
            if norm_code(obs["code"]) != self.ref_code:
                self.viol("module_text", path, out, "Template.code differs from the module text of the decoded text", self.ref_code, norm_code(obs["code"]))
        if path == "mod" and "mpath" in obs:
            self._module_file_oracle(path, out, obs)
        if path in ("reopen", "newproc"):
            st.oracles["reopen_not_regenerated"] += 1
            if obs.get("ino0") is None or obs.get("ino0") != obs.get("ino1"):
                self.viol("reopen", path, out, "module file regenerated or missing on re-open", "same inode", [obs.get("ino0"), obs.get("ino1")])
        rclass = self._render_oracle(path, out, obs)
        if self.closed_def is not None and "def_u" in obs:
            st.oracles["def_template"] += 1
            if obs["def_u"] != self.closed_def:
                self.viol("def_template", path, out, "get_def render_unicode differs", self.closed_def, obs["def_u"])
            else:
                er = expected_render(self.closed_def, out[0], out[1])
                got = ("raise", obs["def_r_exc"]) if "def_r_exc" in obs else (("bytes" if isinstance(obs.get("def_r"), bytes) else "str"), obs.get("def_r"))
                if got != er:
                    self.viol("def_template", path, out, "get_def render() is not render_unicode().encode(...)", repr(er), repr(got))
        return "ok:" + rclass

    def _render_oracle(self, path, out, obs):
        st = self.st
        u = obs.get("u")
        if not isinstance(u, str):
            return "?"
        st.oracles["render_encode"] += 1
        er = expected_render(u, out[0], out[1])
        if "r_exc" in obs:
            got = ("raise", obs["r_exc"])
        else:
            r = obs.get("r")
            got = ("bytes" if isinstance(r, bytes) else "str" if isinstance(r, str) else type(r).__name__, r)
        if got[0] != er[0]:
            self.viol("render_type", path, out, "render() gives %s, expected %s" % (got[0], er[0]), repr(er), repr(got))
        elif got != er:
            self.viol("render_encode", path, out, "render() != render_unicode().encode(%s,%s)" % (out[0] and "enc", out[1]), repr(er), repr(got))
        if out[1] == "htmlentityreplace" and er[0] == "bytes" and b"b'" in er[1]:
            st.extra["htmlentityreplace_bytes_repr_artefact_seen"] = st.extra.get("htmlentityreplace_bytes_repr_artefact_seen", 0) + 1
        return got[0] if got[0] != "raise" else "raise:" + got[1]

    def _module_file_oracle(self, path, out, obs):
        st = self.st
        st.oracles["module_file_bytes"] += 1
        try:
            with open(obs["mpath"], "rb") as f:
                mb = f.read()
            enc, _ = tokenize.detect_encoding(io.BytesIO(mb).readline)
            mtext = mb.decode(enc)
        except Exception as e:  # noqa
            self.viol("module_file", path, out, "module file does not decode with its own coding comment: " + type(e).__name__, None, str(e)[:200])
            return
        if norm_code(mtext) != self.ref_code:
            self.viol("module_file", path, out, "module file text differs from the in-memory module text", self.ref_code, norm_code(mtext))
        elif "code" in obs and obs["code"] != mtext:
            self.viol("module_file", path, out, "Template.code differs from the decoded module file", mtext, obs["code"])


# --------------------------------------------------------------------------
# (A) the grid


def out_kw(out, codec):
    enc, err = out
    if enc is None:
        return (None, err), {}
    if enc == "SAME":
        enc = true_codec(codec)
    return (enc, err), {"output_encoding": enc, "encoding_errors": err}


def build_source(codec, decl, carrier, L):
    """-> raw bytes, header text, comment codec, input_encoding"""
    name, header, cc, ie = decl
    x = true_codec(codec)
    raw = (header + CARRIERS[carrier][0](L)).encode(x)
    if codec == "utf-8-bom":
        raw = BOM + raw
    return raw


BASE_DECLS = ("comment", "comment1", "ie", "both", "conflict-total", "none", "conflict-ascii", "comment-vim", "comment-crlf", "comment-alias")


def string_sets(codec, tier, seed):
    """-> (strings for the ten general declaration styles, strings for the BOM-specific variants)"""
    if tier == "quick":
        full = list(strings(repertoire(codec, seed, 4), 2))
        return full, full
    rep5 = repertoire(codec, seed, 5)
    small = list(strings(rep5, 2))
    full = list(strings(rep5[:4], 3))
    have = set(full)
    full += [w for w in small if w not in have]
    return full, small


def bom_lead_strings(seed):
    rep = repertoire("utf-8-bom", seed, 4)
    out = []
    for c in BOM_LEAD_CHARS:
        out += [c, c + rep[0], c + c, c + rep[2]]
    return out


def source_cases(tier, seed):
    quick = tier == "quick"
    carriers = CARRIERS_QUICK if quick else CARRIERS_THOROUGH
    for codec in CODECS:
        full, small = string_sets(codec, tier, seed)
        ds = decls(codec, tier, seed)
        rep4 = repertoire(codec, seed, 4)
        long_strings = [rep4[1], rep4[2], rep4[1] + rep4[3], rep4[0] + rep4[2]]
        if not quick:
            long_strings += [rep4[3], rep4[2] + rep4[2] + rep4[1]]
        for decl in ds:
            if is_special(decl[0]):
                for carrier in (["text"] if quick else ["text", "defattr"]):
                    for L in long_strings:
                        yield codec, decl, carrier, L
                continue
            for carrier in carriers:
                for L in (full if decl[0] in BASE_DECLS else small):
                    yield codec, decl, carrier, L
            if codec == "utf-8-bom":
                # every BOM declaration style with the special first characters (and, quick, a few ordinary ones)
                for L in bom_lead_strings(seed) + (small[:6] if quick else []):
                    yield codec, decl, "lead", L


def shard_of(raw, ie, ns):
    return zlib.crc32(raw + b"|" + (ie or "").encode()) % ns


def run_source_case(codec, decl, carrier, L, outs, paths, env, st, seen=None, lite_paths=None):
    """Execute one source case on every path x output configuration."""
    from mako.template import Template

    declname, header, cc, ie = decl
    x = true_codec(codec)
    raw = build_source(codec, decl, carrier, L)
    bom = raw.startswith(BOM)
    exp = reference(raw, cc, ie)
    kw_in = {"input_encoding": ie} if ie is not None else {}
    case_base = {"kind": "grid", "codec": codec, "decl": declname, "carrier": carrier, "L": L}
    if (declname.startswith("long-") and declname.endswith(":c")) or declname.startswith("nonascii-"):
        case_base["header"] = header  # the comment line carries seed-chosen characters
    nontriv = bom or any(b >= 0x80 for b in raw) or (cc is not None and ie is not None and codecs.lookup(cc).name != codecs.lookup(ie).name) or declname.startswith("line2-")

    closed = closed_def = ref_u = ref_code = None
    alt_refs = None
    if exp[0] == "ok":
        text = exp[1]
        # harness sanity: the decoded text is header + carrier(L') with L' the bytes of L under the effective codec
        eff = (cc if not bom else "utf-8") or ie or "utf-8"
        try:
            Lp = L.encode(x).decode(eff if not bom else "utf-8")
        except UnicodeDecodeError:
            Lp = None
        if Lp is None or text != header + CARRIERS[carrier][0](Lp):
            st.extra.setdefault("harness_errors", []).append("frame not intact for %r" % (case_base,))
            return
        closed = header_output(declname, header) + CARRIERS[carrier][1](Lp)
        closed_def = Lp if carrier == "defattr" else None
        st.evaluations += 1
        st.transitions += 3
        try:
            rt = Template(text, uri="ref", **kw_in)
            ref_u = rt.render_unicode()
            ref_code = norm_code(rt.code)
        except Exception as e:  # noqa
            st.extra.setdefault("harness_errors", []).append("reference text does not compile: %r %s: %s" % (case_base, type(e).__name__, e))
            return
    elif exp[0] == "dontcare":
        alt_refs = []
        for t_ in exp[1]:
            st.evaluations += 1
            try:
                alt_refs.append(Template(t_, uri="ref").render_unicode())
            except Exception:  # noqa
                pass

    env.count += 1
    base = "c%d" % env.count
    fn = os.path.join(env.tdir, base + ".html")
    with open(fn, "wb") as f:
        f.write(raw)
    jd = Judge(st, case_base, declname, exp, closed, closed_def, ref_u, ref_code, bom, env)
    with_def = carrier == "defattr" and exp[0] == "ok"
    us = {}
    for oi, out0 in enumerate(outs):
        out, kwo = out_kw(out0, codec)
        kw = dict(kw_in)
        kw.update(kwo)
        name = "%s_%d.html" % (base, oi)
        for path in (paths if (lite_paths is None or oi < 2) else lite_paths):
            if seen is not None:
                key = (raw, ie, path, out)
                if key in seen:
                    continue
                seen.add(key)
                st.states += 1
                if nontriv:
                    st.nontrivial += 1
            if path == "newproc":
                mpath = os.path.join(env.mdir, name + ".py")
                env.pending.append(({"fn": fn, "uri": name, "md": env.mdir, "kw": kw, "mpath": mpath, "with_def": with_def}, jd, out, codec, declname))
                continue
            # a real file name for the lookup path must be the template's basename
            obs = exec_path(path, raw, fn, name, kw, env, st, want_code=(path != "reopen"), with_def=with_def)
            oc = jd.judge(path, out, obs, alt_refs)
            st.outcomes[(path, _declclass(declname), exp[0], oc)] += 1
            if env.search:
                cell = dict(case_base, path=path, out=list(out))
                env.recent.append(cell)
                if out[0] is not None and tuple(out) not in env.firstuse:
                    env.firstuse[tuple(out)] = cell
            if "u" in obs and exp[0] == "ok":
                us[(path, out)] = obs["u"]
    # render_unicode() ignores output_encoding: identical for every output configuration of a path
    if exp[0] == "ok":
        for path in paths:
            vals = {repr(v) for (p, o), v in us.items() if p == path}
            if vals:
                st.oracles["render_unicode_ignores_output_encoding"] += 1
            if len(vals) > 1 and not jd.any_failed:
                # (cannot happen while every cell equals the closed form; kept as an explicit oracle of the statement)
                jd._failed = False
                jd.viol("render_unicode_varies", path, ("ALL", "ALL"), "render_unicode depends on output_encoding", None, sorted(vals))
    env.total += 1
    if env.total % 701 == 1:
        st.sample({"codec": codec, "decl": declname, "carrier": carrier, "L": L, "source_bytes": raw.hex(), "input_encoding": ie,
                   "expected": exp[0], "closed_form": closed})


def _declclass(declname):
    return declname.split(":")[0]


def flush_newproc(env, st):
    if not env.pending:
        env.drop()
        return
    ents = [p[0] for p in env.pending]
    res = run_child(ents, st)
    if res is not None:
        for (ent, jd, out, codec, declname), obs in zip(env.pending, res):
            st.evaluations += 1
            st.transitions += 4
            st.traces += 1
            alt = None
            if jd.exp[0] == "dontcare":
                from mako.template import Template

                alt = []
                for t_ in jd.exp[1]:
                    try:
                        alt.append(Template(t_, uri="ref").render_unicode())
                    except Exception:  # noqa
                        pass
            def verify_alone(ent=ent, jd=jd, out=out, alt=alt):
                r1 = run_child([ent], st)
                if r1 is None:
                    return True
                st2 = Stats()
                j2 = Judge(st2, jd.case_base, jd.declname, jd.exp, jd.closed, jd.closed_def, jd.ref_u, jd.ref_code, jd.bom, None)
                j2.judge("newproc", out, r1[0], alt)
                return bool(st2.violations)

            jd.verify_alone = verify_alone if env.search else None
            oc = jd.judge("newproc", out, obs, alt)
            jd.verify_alone = None
            st.outcomes[("newproc", _declclass(declname), jd.exp[0], oc)] += 1
    env.pending = []
    env.drop()


FLUSH_EVERY = 400


def run_grid(job, st):
    tier, seed, sh, ns = job["tier"], job["seed"], job["shard"], job["nshards"]
    quick = tier == "quick"
    outs = OUTS_QUICK if quick else OUTS_THOROUGH
    paths = PATHS_QUICK if quick else PATHS_THOROUGH
    env = Env()
    env.search = True
    seen = set()
    nsrc = 0
    for codec, decl, carrier, L in source_cases(tier, seed):
        raw = build_source(codec, decl, carrier, L)
        if shard_of(raw, decl[3], ns) != sh:
            continue
        nsrc += 1
        # the long-comment styles concern decoding only: crossed with the two plain output configurations
        run_source_case(codec, decl, carrier, L, outs[:2] if is_special(decl[0]) else outs, paths, env, st, seen=seen,
                        lite_paths=PATHS_QUICK_LITE if quick else None)
        if env.count >= FLUSH_EVERY:
            flush_newproc(env, st)
    flush_newproc(env, st)
    st.extra["grid_source_cases"] = nsrc
    return st


# --------------------------------------------------------------------------
# (B) the negative / full-repertoire byte grid

FRAMES = {
    "mid": (b"[a", b"b]\n", lambda d: "[a" + d + "b]\n"),
    "end": (b"[a", b"", lambda d: "[a" + d),
    "lit": (b"[${'", b"'}]\n", lambda d: "[" + d + "]\n"),
    "lead": (b"", b"[b]\n", lambda d: d + "[b]\n"),
}
_SPECIAL = set("<$%#\\\r\n{}'\"|")


def neg_decls(codec):
    x = true_codec(codec)
    ds = [("comment", ("## -*- coding: %s -*-\n" % x).encode("ascii"), x, None), ("ie", b"", None, x)]
    if codec == "utf-8":
        ds.append(("none", b"", None, None))
    # the comment names this codec, input_encoding names one that can decode anything: the comment decides, so bytes
    # that are not valid in the comment's codec are an error, not a reason to fall back
    other = "utf-8" if x.replace("_", "-").lower() in ("latin-1", "iso-8859-1", "latin1") else "latin-1"
    ds.append(("conflict", ("## -*- coding: %s -*-\n" % x).encode("ascii"), x, other))
    return ds


def run_neg_case(codec, decl, seq, frame, paths, env, st):
    from mako.template import Template

    declname, header, cc, ie = decl
    pre, post, closedf = FRAMES[frame]
    raw = header + pre + seq + post
    if codec == "utf-8-bom":
        raw = BOM + raw
    bom = raw.startswith(BOM)
    exp = reference(raw, cc, ie)
    kw = {"input_encoding": ie} if ie is not None else {}
    case_base = {"kind": "neg", "codec": codec, "decl": declname, "seq": seq.hex(), "frame": frame}
    ref = None
    closed = None
    if exp[0] == "ok":
        text = exp[1]
        st.evaluations += 1
        st.transitions += 2
        try:
            ref = ("ok", Template(text, uri="ref", **kw).render_unicode())
        except Exception as e:  # noqa
            ref = ("exc", type(e).__name__)
        try:
            d = seq.decode(cc or ie or "utf-8")
        except UnicodeDecodeError:
            d = None
        if d is not None and not (set(d) & _SPECIAL) and text == header.decode("ascii") + pre.decode("ascii") + d + post.decode("ascii"):
            closed = closedf(d)
    env.count += 1
    name = "n%d.html" % env.count
    fn = os.path.join(env.tdir, name)
    if "mod" in paths or "file" in paths:
        with open(fn, "wb") as f:
            f.write(raw)
    for path in paths:
        st.states += 1
        st.nontrivial += 1
        obs = exec_path(path, raw, fn, name, kw, env, st, want_code=False)
        exc = obs.get("exc")
        st.oracles["outcome_class"] += 1

        failed = []

        def viol(oracle, detail, expected=None, observed=None):
            if failed:
                return
            failed.append(1)
            sig = "neg-%s|decl=%s|path=%s|%s" % (oracle, declname, _pathclass(path), detail)
            case = dict(case_base)
            case.update({"path": path, "sig": sig})
            report(st, env, sig, case, oracle, expected, observed)

        if exp[0] == "error":
            if exc is None:
                oc = "accepted!"
                viol("outcome", "undecodable input accepted", "CompileException", obs.get("u"))
            elif exc[0] != "CompileException":
                oc = "exc:" + exc[0]
                viol("outcome", "wrong exception " + exc[0], "CompileException", exc)
            else:
                oc = "CompileException"
        else:
            got = ("exc", exc[0]) if exc is not None else ("ok", obs.get("u"))
            oc = got[0] if got[0] == "ok" else "same-exc:" + got[1]
            st.oracles["text_equiv"] += 1
            if got != ref:
                oc = "differs!"
                viol("text_equiv", "decodable bytes behave differently from their decoded text", ref, got)
            elif closed is not None:
                st.oracles["closed_form"] += 1
                if got != ("ok", closed):
                    oc = "closed-differs!"
                    viol("closed_form", "output differs", closed, got)
            if exc is None:
                st.oracles["source"] += 1
                src = obs.get("src")
                if not (src == exp[1] or (bom and src == "﻿" + exp[1])):
                    viol("source", "Template.source is not the decoded text", exp[1], src)
        st.outcomes[("neg", path, exp[0], oc)] += 1
        if env.search:
            env.recent.append(dict(case_base, path=path))
    env.total += 1
    if env.total % 1501 == 1:
        st.sample({"kind": "neg", "codec": codec, "decl": declname, "seq": seq.hex(), "frame": frame, "expected": exp[0]})


def neg_seqs(job):
    what = job["what"]
    if what == "single":
        for b in range(0x80, 0x100):
            yield bytes([b])
    elif what == "double":
        for lead in range(job["lead0"], job["lead1"]):
            for b in range(0x100):
                yield bytes([lead, b])
    elif what == "utf8-3":
        for lead in range(0xE0, 0xF0):
            for b2 in [0x7F] + list(range(0x80, 0x100)):
                for b3 in (0x7F, 0x80, 0xBF, 0xC0):
                    yield bytes([lead, b2, b3])
    elif what == "utf8-4":
        for lead in range(0xF0, 0xF8):
            for b2 in range(0x80, 0x100):
                for b3 in (0x80, 0xBF):
                    for b4 in (0x80, 0xBF):
                        yield bytes([lead, b2, b3, b4])


def run_neg(job, st):
    codec = job["codec"]
    env = Env()
    env.search = True
    ds = neg_decls(codec)
    if "decls" in job:
        ds = [d for d in ds if d[0] in job["decls"]]
    elif job["what"] != "single":
        ds = ds[:1]
    frames = job["frames"]
    n = 0
    for decl in ds:
        for seq in neg_seqs(job):
            for frame in frames:
                run_neg_case(codec, decl, seq, frame, job["paths"], env, st)
                n += 1
                if env.count >= 1500:
                    env.drop()
    env.drop()
    st.extra["neg_source_cases"] = n
    return st


# --------------------------------------------------------------------------
# (C) sequences: process-wide state between renders.  Every ordered pair of distinct output configurations
# (encoding, error policy) is rendered first / second in a pristine process (forked from a child interpreter that
# has imported mako and rendered nothing); both results are compared with str.encode of the standard library.

SEQ_ENCODINGS = {"quick": ["ascii", "latin-1", "utf-16"], "thorough": ["ascii", "latin-1", "cp1252", "shift_jis", "utf-16", "utf-8-sig"]}
SEQ_POLICIES = {
    "quick": ["strict", "replace", "xmlcharrefreplace", "htmlentityreplace"],
    "thorough": ["strict", "replace", "xmlcharrefreplace", "htmlentityreplace", "ignore", "backslashreplace", "namereplace"],
}
SEQ_POOLS = [["é", "ß", "ñ", "ü"], ["€", "™", "…", "—"], ["中", "ж", "あ", "\U0001d11e"]]


def seq_chars(seed):
    # one character outside ascii but inside latin-1, one outside latin-1 with a named entity, one without
    return "".join(p[(seed + i) % 4] for i, p in enumerate(SEQ_POOLS))


def seq_configs(tier):
    return [(e, p) for e in SEQ_ENCODINGS[tier] for p in SEQ_POLICIES[tier]]


def seq_cases(tier, seed):
    cs = seq_configs(tier)
    L = seq_chars(seed)
    for a in cs:
        for b in cs:
            if a != b:
                yield {"kind": "seq", "first": list(a), "second": list(b), "L": L}


_SEQ_CHILD = r"""
import sys, json, os
sys.path.insert(0, %(repo)r)
from mako.template import Template
def J(v):
    if isinstance(v, str):
        return v
    if isinstance(v, bytes):
        return {"__bytes__": v.hex()}
    return {"__repr__": repr(v)}
def step(text, enc, err):
    res = {}
    try:
        t = Template(text, output_encoding=enc, encoding_errors=err)
        res["u"] = J(t.render_unicode())
        try:
            res["r"] = J(t.render())
        except UnicodeError as x:
            res["r_exc"] = type(x).__name__
        d = t.get_def("f")
        res["def_u"] = J(d.render_unicode())
        try:
            res["def_r"] = J(d.render())
        except UnicodeError as x:
            res["def_r_exc"] = type(x).__name__
    except BaseException as x:
        res["exc"] = [type(x).__name__, str(x)[:200]]
    return res
seqs = json.load(sys.stdin)
sys.stdout.flush()
for i, sq in enumerate(seqs):
    pid = os.fork()
    if pid == 0:
        out = [step(sq["text"], e, p) for (e, p) in sq["steps"]]
        sys.stdout.write(json.dumps([i, out]) + "\n")
        sys.stdout.flush()
        os._exit(0)
    os.waitpid(pid, 0)
"""


def _seq_text(L):
    # several writes to the top-level buffer and to the def's
    return "[x" + L + "y]${'" + L + "'}<%def name=\"f()\">(" + L + ")${'" + L + "'}</%def>\n"


def _unj(d):
    for k, v in list(d.items()):
        if isinstance(v, dict):
            d[k] = bytes.fromhex(v["__bytes__"]) if "__bytes__" in v else v["__repr__"]
    return d


def _relation(a, b):
    if a[0] == b[0]:
        return "same encoding, other error policy"
    if a[1] == b[1]:
        return "other encoding, same error policy"
    return "other encoding, other error policy"


def run_seq_batch(cases, st, env=None):
    import mako.filters  # noqa: registers the 'htmlentityreplace' handler the expected value is computed with

    payload = [{"text": _seq_text(c["L"]), "steps": [c["first"], c["second"]]} for c in cases]
    code = _SEQ_CHILD % {"repo": os.path.abspath(core.REPO)}
    pr = subprocess.run([sys.executable, "-c", code], input=json.dumps(payload), capture_output=True, text=True)
    got = {}
    for l in pr.stdout.splitlines():
        if l.startswith("["):
            i, out = json.loads(l)
            got[i] = [_unj(o) for o in out]
    if pr.returncode != 0 or len(got) != len(cases):
        st.extra.setdefault("harness_errors", []).append(
            "sequence child failed: rc=%s got %d of %d; err=%s" % (pr.returncode, len(got), len(cases), pr.stderr[-600:]))
        return
    for i, c in enumerate(cases):
        L = c["L"]
        closed, closed_def = "[x" + L + "y]" + L + "\n", "(" + L + ")" + L
        rel = _relation(c["first"], c["second"])
        st.states += 1
        st.nontrivial += 1
        st.traces += 1
        ocs = []
        for k, (cfg, obs) in enumerate(zip((c["first"], c["second"]), got[i])):
            st.evaluations += 1
            st.transitions += 5
            enc, err = cfg
            bad = None
            st.oracles["seq_render"] += 1
            if "exc" in obs:
                bad = ("outcome", "raised " + obs["exc"][0], "renders", obs["exc"])
            elif obs.get("u") != closed or obs.get("def_u") != closed_def:
                bad = ("render_unicode", "render_unicode differs", [closed, closed_def], [obs.get("u"), obs.get("def_u")])
            else:
                for pre, u in (("", closed), ("def_", closed_def)):
                    er = expected_render(u, enc, err)
                    if pre + "r_exc" in obs:
                        g = ("raise", obs[pre + "r_exc"])
                    else:
                        r = obs.get(pre + "r")
                        g = ("bytes" if isinstance(r, bytes) else type(r).__name__, r)
                    if g != er and bad is None:
                        what = "render()" if not pre else "get_def render()"
                        bad = ("render_encode", what + " != render_unicode().encode(enc, errors)", repr(er), repr(g))
                    ocs.append(g[0] if g[0] != "raise" else "raise:" + g[1])
            if bad:
                oracle, detail, expd, obsd = bad
                where = "first render of the process" if k == 0 else "second render, after " + rel
                sig = "seq-%s|%s|%s" % (oracle, where, detail)
                case = dict(c, sig=sig)
                # a sequence case is self-contained (its own pristine process): no prelude needed
                st.violation(sig, case, "seq-" + oracle, expected=expd, observed=obsd)
                break
        st.outcomes[("seq", rel, tuple(ocs))] += 1
        if i % 97 == 0:
            st.sample(dict(c))


# --------------------------------------------------------------------------
# (D) output encodings: template shapes that write to the output buffer in one / several pieces x a wide alphabet of
# output encodings (incl. encoders that are stateful across the text: BOM-writing utf-16 / utf-32 / utf-8-sig,
# escape-sequence iso2022_jp / hz, utf-7) x error policies x strings x ways to render.
# Oracle: render() == render_unicode().encode(enc, errors) of the standard library, on the WHOLE text.

OUTENC_ENCODINGS = {
    "quick": ["utf-16", "utf-32", "utf-8-sig", "utf-16-le", "utf-16-be", "utf-8", "ascii", "latin-1", "shift_jis",
              "iso2022_jp", "utf-7"],
    "thorough": ["utf-16", "utf-32", "utf-8-sig", "utf-16-le", "utf-16-be", "utf-32-le", "utf-32-be", "utf-8", "ascii",
                 "latin-1", "cp1251", "cp1252", "koi8-r", "shift_jis", "euc-jp", "gb2312", "iso-8859-15", "iso2022_jp",
                 "iso2022_kr", "hz", "utf-7", "big5", "cp932", "gb18030"],
}
OUTENC_POLICIES = SEQ_POLICIES

# name -> (template source(L), closed-form output(L), {other templates of the lookup}, closed form of get_def('f') or None)
OUTENC_SHAPES = {
    "one-write": (lambda L: "[" + L + "]", lambda L: "[" + L + "]", None, None),
    "text+expr": (lambda L: "[" + L + "]${'" + L + "'}<" + L + ">${'!'}\n", lambda L: "[" + L + "]" + L + "<" + L + ">!\n", None, None),
    "loop": (lambda L: "% for i in range(3):\n${i}" + L + "\n% endfor\n", lambda L: "".join("%d%s\n" % (i, L) for i in range(3)), None, None),
    "def-call": (lambda L: "<%def name=\"f()\">(" + L + "${'" + L + "'})</%def>[${f()}]" + L + "${f()}\n",
                 lambda L: "[(" + L + L + ")]" + L + "(" + L + L + ")\n", None, lambda L: "(" + L + L + ")"),
    "buffered-def": (lambda L: "<%def name=\"f()\" buffered=\"True\">(" + L + "${'" + L + "'})</%def>" + L + "${f()}${f()}\n",
                     lambda L: L + "(" + L + L + ")(" + L + L + ")\n", None, lambda L: "(" + L + L + ")"),
    "inherit": (lambda L: "<%inherit file=\"base.html\"/>" + L + "${'" + L + "'}",
                lambda L: "<" + L + ">" + L + L + "</" + L + ">\n",
                lambda L: {"base.html": "<" + L + ">${self.body()}</" + L + ">\n"}, None),
}
# nothing at all is written: render() is still render_unicode().encode(...) (bytes; the encoder's prefix for utf-16 / utf-32 / utf-8-sig)
OUTENC_SHAPES["nothing"] = (lambda L: "", lambda L: "", None, None)
OUTENC_SHAPES["nothing-doc"] = (lambda L: "<%doc>" + L + "</%doc>\\\n## " + L + "\n", lambda L: "", None, None)
OUTENC_SHAPES["nothing-false-branch"] = (lambda L: "% if False:\n" + L + "\n% endif\n", lambda L: "", None, None)
OUTENC_SHAPES["nothing-empty-writes"] = (lambda L: "<%def name=\"f()\">${''}</%def>${f()}${''}", lambda L: "", None, lambda L: "")
OUTENC_SHAPES["nothing-from-def"] = (lambda L: "<%def name=\"f()\"></%def>" + L + "${f()}\n", lambda L: L + "\n", None, lambda L: "")
OUTENC_SHAPES_QUICK = ["one-write", "text+expr", "loop", "def-call", "inherit", "nothing", "nothing-doc", "nothing-false-branch", "nothing-empty-writes", "nothing-from-def"]
OUTENC_POOLS = [["é", "ß", "ñ", "ü"], ["€", "™", "…", "—"], ["中", "あ", "ソ", "日"], ["\U0001d11e", "\U0001f600", "\U00010348", "\U00020000"]]


def outenc_strings(tier, seed):
    c = [p[(seed + i) % 4] for i, p in enumerate(OUTENC_POOLS)]
    a = _ASCII_L[seed % 4]
    out = [a, c[0], c[2] + c[2], c[0] + c[1] + c[2] + c[3]]
    if tier != "quick":
        out += [c[3], a + c[2] + a + c[2]]
    return out


def outenc_cases(tier, seed):
    shapes = OUTENC_SHAPES_QUICK if tier == "quick" else list(OUTENC_SHAPES)
    for shape in shapes:
        for enc in OUTENC_ENCODINGS[tier]:
            for err in OUTENC_POLICIES[tier]:
                for L in outenc_strings(tier, seed):
                    for how in (("memory", "modfile") if tier == "quick" else ("memory", "modfile", "lookup")):
                        if OUTENC_SHAPES[shape][2] is not None and how != "lookup" and tier != "quick":
                            continue
                        yield {"kind": "outenc", "shape": shape, "enc": enc, "err": err, "L": L, "how": how}


def run_outenc_case(c, env, st):
    from mako.lookup import TemplateLookup
    from mako.template import Template

    src_f, closed_f, others_f, def_f = OUTENC_SHAPES[c["shape"]]
    L, enc, err, how = c["L"], c["enc"], c["err"], c["how"]
    src, closed = src_f(L), closed_f(L)
    kw = {"output_encoding": enc, "encoding_errors": err}
    st.states += 1
    st.nontrivial += 1
    st.traces += 1
    st.evaluations += 1
    st.transitions += 3
    obs = {}
    try:
        env.count += 1
        if others_f is not None or how == "lookup":
            d = os.path.join(env.tdir, "o%d" % env.count)
            os.makedirs(d)
            files = dict(others_f(L)) if others_f is not None else {}
            files["t.html"] = src
            for name, text in files.items():
                with open(os.path.join(d, name), "wb") as f:
                    f.write(text.encode("utf-8"))
            lkw = dict(kw)
            if how != "memory":
                lkw["module_directory"] = os.path.join(d, "m")
            t = TemplateLookup(directories=[d], **lkw).get_template("t.html")
        elif how == "memory":
            t = Template(src, uri="oe%d" % env.count, **kw)
        else:
            fn = os.path.join(env.tdir, "o%d.html" % env.count)
            with open(fn, "wb") as f:
                f.write(src.encode("utf-8"))
            t = Template(filename=fn, uri="o%d.html" % env.count, module_directory=env.mdir, **kw)
        obs["u"] = t.render_unicode()
        try:
            obs["r"] = t.render()
        except UnicodeError as e:
            obs["r_exc"] = type(e).__name__
        if def_f is not None:
            st.transitions += 2
            dt = t.get_def("f")
            obs["def_u"] = dt.render_unicode()
            try:
                obs["def_r"] = dt.render()
            except UnicodeError as e:
                obs["def_r_exc"] = type(e).__name__
    except Exception as e:  # noqa
        obs["exc"] = [type(e).__name__, str(e)[:200]]
    bad = None
    oc = []
    st.oracles["outenc_render"] += 1
    if "exc" in obs:
        bad = ("outcome", "raised " + obs["exc"][0], "renders", obs["exc"])
        oc.append("exc!")
    elif obs["u"] != closed or (def_f is not None and obs.get("def_u") != def_f(L)):
        bad = ("render_unicode", "render_unicode differs", closed, [obs["u"], obs.get("def_u")])
    else:
        for pre, u in (("", closed),) + ((("def_", def_f(L)),) if def_f is not None else ()):
            er = expected_render(u, enc, err)
            if pre + "r_exc" in obs:
                g = ("raise", obs[pre + "r_exc"])
            else:
                r = obs.get(pre + "r")
                g = ("bytes" if isinstance(r, bytes) else type(r).__name__, r)
            oc.append(g[0] if g[0] != "raise" else "raise:" + g[1])
            if g != er and bad is None:
                what = "render()" if not pre else "get_def render()"
                pieces = "several-piece output" if c["shape"] != "one-write" else "one-piece output"
                bad = ("render_encode", "%s != render_unicode().encode(enc, errors), %s" % (what, pieces), repr(er), repr(g))
    st.outcomes[("outenc", c["shape"], how, tuple(oc))] += 1
    if bad:
        oracle, detail, expd, obsd = bad
        sig = "outenc-%s|%s" % (oracle, detail)
        case = dict(c, sig=sig, out=[enc, err])
        report(st, env, sig, case, "outenc-" + oracle, expd, obsd)
    if env.search:
        cell = dict(c, out=[enc, err])
        env.recent.append(cell)
        if (enc, err) not in env.firstuse:
            env.firstuse[(enc, err)] = cell
    env.total += 1
    if env.total % 211 == 1:
        st.sample(dict(c, closed_form=closed))


def run_outenc(job, st):
    env = Env()
    env.search = True
    n = 0
    for c in job["cases"]:
        run_outenc_case(c, env, st)
        n += 1
        if env.count >= 600:
            env.drop()
    env.drop()
    st.extra["outenc_cases"] = n


# --------------------------------------------------------------------------
# (E) histories on ONE long-lived Template object (also the one a TemplateLookup hands out again): every sequence of
# <= n steps over an alphabet of renders that succeed, raise part way (after text was written), or cannot be encoded
# under the configured policy, through render() / render_unicode() / get_def().render().  Every step is judged:
# an exception of the data must propagate, otherwise render() == render_unicode().encode(enc, errors) and
# render_unicode() == closed form -- whatever happened before on that object.

TSEQ_TEMPLATE = "[x${a}y${b()}z]<%def name=\"f()\">(${a}|${b()})</%def>\n"
TSEQ_CONFIGS = {
    "quick": [(None, "strict"), ("ascii", "strict"), ("ascii", "xmlcharrefreplace"), ("latin-1", "strict"), ("utf-8", "strict"), ("utf-16", "strict")],
    "thorough": [(None, "strict"), ("ascii", "strict"), ("ascii", "replace"), ("ascii", "xmlcharrefreplace"), ("latin-1", "strict"),
                 ("latin-1", "htmlentityreplace"), ("utf-8", "strict"), ("utf-16", "strict"), ("utf-8-sig", "strict"), ("shift_jis", "strict"),
                 ("iso2022_jp", "replace")],
}
# step = (api, a-kind, b-kind); a-kind: A ascii / L latin-1 char / W wide char (outside latin-1); b-kind: ok / raise
TSEQ_STEPS = {
    "quick": [("render", "A", "ok"), ("render", "L", "ok"), ("render", "W", "ok"), ("render", "A", "raise"), ("render", "W", "raise"),
              ("render_unicode", "W", "ok"), ("render_unicode", "A", "raise"), ("def.render", "L", "ok"), ("def.render", "A", "raise")],
    "thorough": [("render", "A", "ok"), ("render", "L", "ok"), ("render", "W", "ok"), ("render", "A", "raise"), ("render", "W", "raise"),
                 ("render_unicode", "W", "ok"), ("render_unicode", "A", "raise"), ("def.render", "L", "ok"), ("def.render", "W", "ok"),
                 ("def.render", "A", "raise"), ("def.render_unicode", "W", "ok")],
}
TSEQ_POOLS = {"A": ["a", "b", "z", "Q"], "L": ["é", "ß", "ñ", "ü"], "W": ["中", "€", "あ", "ж"]}


class _TseqBoom(Exception):
    pass


def tseq_cases(tier, seed):
    steps = TSEQ_STEPS[tier]
    n = 2 if tier == "quick" else 3
    for enc, err in TSEQ_CONFIGS[tier]:
        for how in ("memory", "lookup"):
            for k in range(2, n + 1):
                for seq in itertools.product(range(len(steps)), repeat=k):
                    yield {"kind": "tseq", "enc": enc, "err": err, "how": how, "steps": [list(steps[i]) for i in seq], "seed": seed}


def run_tseq_case(c, env, st):
    from mako.lookup import TemplateLookup
    from mako.template import Template

    enc, err, how, seed = c["enc"], c["err"], c["how"], c["seed"]
    kw = {"output_encoding": enc, "encoding_errors": err} if enc is not None else {}
    st.states += 1
    st.nontrivial += 1
    st.traces += 1
    st.oracles["tseq_step"] += len(c["steps"])
    lk = None
    try:
        if how == "lookup":
            lk = TemplateLookup(**kw)
            lk.put_string("t.html", TSEQ_TEMPLATE)
            t = lk.get_template("t.html")
        else:
            env.count += 1
            t = Template(TSEQ_TEMPLATE, uri="ts%d" % env.count, **kw)
    except Exception as e:  # noqa
        st.extra.setdefault("harness_errors", []).append("tseq template does not compile: %s: %s" % (type(e).__name__, e))
        return
    bad = None
    ocs = []
    for k, (api, ak, bk) in enumerate(c["steps"]):
        a = TSEQ_POOLS[ak][(seed + k) % 4] * (1 + k % 2)
        tail = TSEQ_POOLS["L"][(seed + k + 1) % 4]
        if bk == "ok":
            def b(tail=tail):
                return tail
        else:
            def b():
                raise _TseqBoom("boom")
        st.evaluations += 1
        st.transitions += 1
        if how == "lookup":
            t = lk.get_template("t.html")  # the long-lived object of the collection
        obj = t.get_def("f") if api.startswith("def.") else t
        meth = getattr(obj, api.split(".")[-1])
        try:
            got = ("value", meth(a=a, b=b))
        except _TseqBoom:
            got = ("raise", "_TseqBoom")
        except UnicodeError as e:
            got = ("raise", type(e).__name__)
        except Exception as e:  # noqa
            got = ("raise!", type(e).__name__ + ": " + str(e)[:100])
        closed = ("(%s|%s)" % (a, tail)) if api.startswith("def.") else "[x%sy%sz]\n" % (a, tail)
        if bk == "raise":
            exp = ("raise", "_TseqBoom")
        elif api.endswith("render_unicode"):
            exp = ("value", closed)
        else:
            er = expected_render(closed, enc, err)
            exp = ("raise", er[1]) if er[0] == "raise" else ("value", er[1])
        ocs.append(exp[0] if exp[0] == "value" else exp[1])
        if got != exp:
            hist = "first render" if k == 0 else "after " + " , ".join(
                ("a render that raised part way" if s[2] == "raise" else
                 "a render that could not be encoded" if ocs[i] not in ("value", "_TseqBoom") else "a successful render")
                for i, s in enumerate(c["steps"][:k]))
            bad = ("tseq-" + ("render_unicode" if api.endswith("unicode") else "render"), "%s, same Template object: %s" % (api, hist), exp, got)
            break
    st.outcomes[("tseq", how, tuple(ocs))] += 1
    if bad:
        oracle, detail, expd, obsd = bad
        sig = "%s|%s" % (oracle, detail)
        case = dict(c, sig=sig, out=[enc, err])
        report(st, env, sig, case, oracle, repr(expd), repr(obsd))
    env.total += 1
    if env.total % 307 == 1:
        st.sample(dict(c))


def run_tseq(job, st):
    env = Env()
    env.search = True
    for c in job["cases"]:
        run_tseq_case(c, env, st)
    env.drop()
    st.extra["tseq_cases"] = len(job["cases"])


# --------------------------------------------------------------------------
# (F) a template FILE that changes its encoding declaration between two loads through one TemplateLookup
# (filesystem_checks on, with and without a module directory): every version must be decoded by its own declaration
# (coding comment / BOM / the lookup's input_encoding / the UTF-8 default), whatever the previous version declared

RELOAD_VERSIONS = {
    # name -> (declaration, codec of the bytes, needs lookup input_encoding)
    "comment-koi8-r": ("## -*- coding: koi8-r -*-\n", "koi8-r", None),
    "comment-shift_jis": ("## -*- coding: shift_jis -*-\n", "shift_jis", None),
    "comment-cp1251": ("## -*- coding: cp1251 -*-\n", "cp1251", None),
    "bom": ("", "utf-8-sig", None),
    "default-utf-8": ("", "utf-8", None),
    "input_encoding": ("", "IE", "IE"),
    "comment-over-input_encoding": ("## -*- coding: koi8-r -*-\n", "koi8-r", "IE"),
}
RELOAD_IE = [None, "cp1251"]
RELOAD_POOL = ["\u0436", "\u0444", "\u044f", "\u0431"]


def reload_cases(tier, seed):
    names = list(RELOAD_VERSIONS)
    for ie in RELOAD_IE:
        usable = [n for n in names if (RELOAD_VERSIONS[n][2] is None or ie is not None) and not (n == "default-utf-8" and ie is not None)]
        for mod in (False, True):
            for a in usable:
                for b in usable:
                    if a != b:
                        yield {"kind": "reload", "ie": ie, "moddir": mod, "versions": [a, b, a], "seed": seed}


def run_reload_case(c, env, st):
    from mako.lookup import TemplateLookup

    ch = RELOAD_POOL[c["seed"] % 4]
    env.count += 1
    d = os.path.join(env.tdir, "rl%d" % env.count)
    os.makedirs(d)
    kw = {}
    if c["ie"]:
        kw["input_encoding"] = c["ie"]
    if c["moddir"]:
        kw["module_directory"] = os.path.join(d, "m")
    lk = TemplateLookup(directories=[d], filesystem_checks=True, **kw)
    path = os.path.join(d, "t.html")
    base = int(time.time()) + 100
    obs, exp = [], []
    for i, name in enumerate(c["versions"]):
        decl, codec, _ = RELOAD_VERSIONS[name]
        codec = c["ie"] if codec == "IE" else codec
        text = "v%d[%s%s]${'%s'}\n" % (i, ch, ch, ch)
        with open(path, "wb") as f:
            f.write((decl + text).encode(codec))
        os.utime(path, (base + 10 * i, base + 10 * i))  # every version at least one whole second newer than any compile
        exp.append(("\n" if decl else "") + "v%d[%s%s]%s\n" % (i, ch, ch, ch))
        try:
            obs.append(lk.get_template("t.html").render_unicode())
        except Exception as e:  # noqa
            obs.append("%s: %s" % (type(e).__name__, str(e)[:150]))
    exp = [e.lstrip("\n") for e in exp]
    obs = [o.lstrip("\n") if isinstance(o, str) else o for o in obs]
    st.states += 1
    st.nontrivial += 1
    st.traces += 1
    st.evaluations += len(obs)
    st.transitions += len(obs)
    st.oracles["reload_decoded_by_own_declaration"] += 1
    ok = obs == exp
    st.outcomes[("reload", "ok" if ok else "differs")] += 1
    if not ok:
        i = [x == y for x, y in zip(obs, exp)].index(False)
        sig = "reload|version %d declared by %s after one declared by %s: %s" % (
            i, c["versions"][i].split("-")[0], c["versions"][i - 1].split("-")[0] if i else "nothing", "raises" if ": " in obs[i][:40] and "Exception" in obs[i][:40] or "Error" in obs[i][:40] else "decoded differently")
        report(st, env, sig, dict(c, sig=sig), "reload", exp, obs)


def run_reload(job, st):
    env = Env()
    for c in job["cases"]:
        run_reload_case(c, env, st)
    env.drop()
    st.extra["reload_cases"] = len(job["cases"])


# --------------------------------------------------------------------------
# (G) Template options that add lines to the head of the generated module (future_imports, imports, a <%! %> block,
# strict_undefined, enable_loop=False, default_filters) x non-UTF-8 sources x module-file paths: the module file must
# still be read in the source's encoding (first generation and re-load by a new Template object)

MODOPT_OPTIONS = {
    "future_imports": {"future_imports": ["annotations"]},
    "future_imports-2": {"future_imports": ["annotations", "generator_stop"]},
    "imports": {"imports": ["import os", "from os import path as zpath"]},
    "future+imports": {"future_imports": ["annotations"], "imports": ["import os"]},
    "strict_undefined": {"strict_undefined": True},
    "no-loop": {"enable_loop": False},
    "default_filters": {"default_filters": ["str", "trim"]},
    "plain": {},
    # a caller-supplied module_writer is handed the module source ENCODED as the module's own coding comment says
    "module_writer": {"module_writer": "@writer"},
    "module_writer+future": {"module_writer": "@writer", "future_imports": ["annotations"]},
}
MODOPT_CODECS = ["koi8-r", "cp1251", "shift_jis", "latin-1", "euc-jp"]
MODOPT_CHARS = {"koi8-r": "\u0436\u044f", "cp1251": "\u0444\u0431", "shift_jis": "\u3042\u30bd", "latin-1": "\u00e9\u00ff", "euc-jp": "\u65e5\u672c"}


def modopt_cases(tier, seed):
    for codec in MODOPT_CODECS:
        for decl in ("comment", "ie"):
            for oname in MODOPT_OPTIONS:
                for body in ("text", "text+module-block", "pyblock", "pyblock-raw-string", "identifier"):
                    yield {"kind": "modopt", "codec": codec, "decl": decl, "opt": oname, "body": body}


def run_modopt_case(c, env, st):
    from mako.template import Template

    codec, ch = c["codec"], MODOPT_CHARS[c["codec"]]
    env.count += 1
    fn = os.path.join(env.tdir, "mo%d.html" % env.count)
    head = "## -*- coding: %s -*-\n" % codec if c["decl"] == "comment" else ""
    if c["body"] == "text":
        src, closed = "[" + ch + "]${'" + ch + "'}\n", "[" + ch + "]" + ch + "\n"
    elif c["body"] == "text+module-block":
        src, closed = "<%! zz = '" + ch + "' %>[" + ch + "]${zz}\n", "[" + ch + "]" + ch + "\n"
    elif c["body"] == "pyblock-raw-string":
        # places where an escape sequence is NOT another spelling of the character: a raw string, after a backslash
        src, closed = "<% zz = r'" + ch + "' %>[${zz}]${len(r'" + ch + "')}${'\\" + "\\" + ch[0] + "'}\n", "[" + ch + "]" + str(len(ch)) + "\\" + ch[0] + "\n"
    elif c["body"] == "identifier":
        src, closed = "<% z" + ch[0] + " = '" + ch + "' %>[${z" + ch[0] + "}]\n", "[" + ch + "]\n"
    else:
        src, closed = "<% zz = '" + ch + "' %>[${zz}]" + ch + "\n", "[" + ch + "]" + ch + "\n"
    with open(fn, "wb") as f:
        f.write((head + src).encode(codec))
    kw = dict(MODOPT_OPTIONS[c["opt"]])
    if kw.get("module_writer") == "@writer":
        def _writer(source, outputpath):
            with open(outputpath, "wb") as f_:
                f_.write(source)

        kw["module_writer"] = _writer
    if c["decl"] == "ie":
        kw["input_encoding"] = codec
    mdir = os.path.join(env.tdir, "mom%d" % env.count)
    obs = []
    for attempt in ("first-generation", "reload-by-a-new-Template"):
        try:
            obs.append(Template(filename=fn, uri="mo%d.html" % env.count, module_directory=mdir, **kw).render_unicode())
        except Exception as e:  # noqa
            obs.append("%s: %s" % (type(e).__name__, str(e)[:150]))
    st.states += 1
    st.nontrivial += 1
    st.traces += 1
    st.evaluations += 2
    st.transitions += 2
    st.oracles["modopt_module_file_in_source_encoding"] += 1
    exp = [closed, closed]
    ok = obs == exp
    st.outcomes[("modopt", c["opt"], "ok" if ok else "differs")] += 1
    if not ok:
        i = 0 if obs[0] != closed else 1
        sig = "modopt|%s|%s: %s" % (c["opt"], ["first generation", "re-load"][i], "raises" if "Error" in obs[i][:40] or "Exception" in obs[i][:40] else "other text")
        report(st, env, sig, dict(c, sig=sig), "modopt", exp, obs)


def run_modopt(job, st):
    env = Env()
    for c in job["cases"]:
        run_modopt_case(c, env, st)
    env.drop()
    st.extra["modopt_cases"] = len(job["cases"])


# --------------------------------------------------------------------------
# jobs


def plan(tier, seed):
    for c in CODECS:
        repertoire(c, seed, 5)
    ns = 48
    jobs = [{"kind": "grid", "tier": tier, "seed": seed, "shard": i, "nshards": ns} for i in range(ns)]
    for codec in CODECS:
        for d in ("comment", "ie", "none", "conflict"):
            if d == "none" and codec != "utf-8":
                continue
            frames = ["mid", "end", "lit"] + (["lead"] if (tier != "quick" or codec in ("utf-8", "utf-8-bom")) else [])
            jobs.append({"kind": "neg", "tier": tier, "seed": seed, "codec": codec, "what": "single", "decls": [d],
                         "frames": frames, "paths": ["bytes", "mod"]})
    if tier != "quick":
        for codec in CODECS:
            if codec == "utf-8-bom":
                continue
            for lead0 in range(0x80, 0x100, 16):
                jobs.append({"kind": "neg", "tier": tier, "seed": seed, "codec": codec, "what": "double", "lead0": lead0,
                             "lead1": lead0 + 16, "frames": ["mid"], "paths": ["bytes", "mod"]})
        for what in ("utf8-3", "utf8-4"):
            jobs.append({"kind": "neg", "tier": tier, "seed": seed, "codec": "utf-8", "what": what, "frames": ["mid", "end"],
                         "paths": ["bytes", "mod"]})
        # every three-byte sequence class directly behind the BOM (lead bytes E0..EF incl. the BOM's own EF)
        jobs.append({"kind": "neg", "tier": tier, "seed": seed, "codec": "utf-8-bom", "what": "utf8-3", "decls": ["ie"],
                     "frames": ["lead"], "paths": ["bytes", "mod"]})
    sq = list(seq_cases(tier, seed))
    nsq = 4 if tier == "quick" else 16
    for i in range(nsq):
        jobs.append({"kind": "seq", "tier": tier, "seed": seed, "cases": sq[i::nsq]})
    tq = list(tseq_cases(tier, seed))
    ntq = 4 if tier == "quick" else 16
    for i in range(ntq):
        jobs.append({"kind": "tseq", "tier": tier, "seed": seed, "cases": tq[i::ntq]})
    oc = list(outenc_cases(tier, seed))
    noc = 4 if tier == "quick" else 16
    for i in range(noc):
        jobs.append({"kind": "outenc", "tier": tier, "seed": seed, "cases": oc[i::noc]})
    mc_ = list(modopt_cases(tier, seed))
    for i in range(2):
        jobs.append({"kind": "modopt", "tier": tier, "seed": seed, "cases": mc_[i::2]})
    rc = list(reload_cases(tier, seed))
    for i in range(2):
        jobs.append({"kind": "reload", "tier": tier, "seed": seed, "cases": rc[i::2]})
    # long jobs first
    jobs.sort(key=lambda j: 0 if j["kind"] == "grid" else 1)
    return jobs


def run_job(job):
    st = Stats()
    t0 = time.time()
    try:
        if job["kind"] == "grid":
            run_grid(job, st)
        elif job["kind"] == "seq":
            run_seq_batch(job["cases"], st)
        elif job["kind"] == "outenc":
            run_outenc(job, st)
        elif job["kind"] == "tseq":
            run_tseq(job, st)
        elif job["kind"] == "reload":
            run_reload(job, st)
        elif job["kind"] == "modopt":
            run_modopt(job, st)
        else:
            run_neg(job, st)
    finally:
        k = "cpu_s_" + job["kind"]
        st.extra[k] = round(time.time() - t0, 1)
    return st


def post(tier, seed, st):
    st.extra["alphabet"] = {c: repertoire(c, seed, 4 if tier == "quick" else 5) for c in CODECS}


# --------------------------------------------------------------------------


def replay(case):
    st = Stats()
    env = Env()
    try:
        if case["kind"] == "seq":
            run_seq_batch([{k: case[k] for k in ("kind", "first", "second", "L")}], st)
        elif case["kind"] == "tseq":
            run_tseq_case({k: case[k] for k in ("kind", "enc", "err", "how", "steps", "seed")}, env, st)
        elif case["kind"] == "outenc":
            run_outenc_case({k: case[k] for k in ("kind", "shape", "enc", "err", "L", "how")}, env, st)
        elif case["kind"] == "modopt":
            run_modopt_case({k: case[k] for k in ("kind", "codec", "decl", "opt", "body")}, env, st)
        elif case["kind"] == "reload":
            run_reload_case({k: case[k] for k in ("kind", "ie", "moddir", "versions", "seed")}, env, st)
        elif case["kind"] == "grid":
            codec = case["codec"]
            decl = None
            for tier in ("quick", "thorough"):
                for sd in range(4):
                    for d in decls(codec, tier, sd):
                        if d[0] == case["decl"] and case.get("header") in (None, d[1]):
                            decl = d
                            break
                    if decl:
                        break
                if decl:
                    break
            if decl is None:
                return None, "unknown declaration"
            out = tuple(case["out"])
            out0 = ("SAME", out[1]) if (out[0] is not None and out[0] == true_codec(codec) and out[1] == "strict") else out
            outs = [out0] if out[0] != "ALL" else OUTS_THOROUGH
            path = case["path"]
            paths = [path] if path not in ("reopen", "newproc") else ["mod", path]
            run_source_case(codec, decl, case["carrier"], case["L"], outs, paths, env, st)
            flush_newproc(env, st)
        else:
            codec = case["codec"]
            decl = [d for d in neg_decls(codec) if d[0] == case["decl"]][0]
            run_neg_case(codec, decl, bytes.fromhex(case["seq"]), case["frame"], [case["path"]], env, st)
    finally:
        shutil.rmtree(env.root, ignore_errors=True)
    if st.extra.get("harness_errors"):
        return None, "harness: %r" % st.extra["harness_errors"][:1]
    want = case.get("sig")
    for v in st.violations:
        if want is None or v["sig"] == want:
            return False, "reproduced: %r" % (v,)
    return True, "holds"
