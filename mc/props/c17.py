"""C17 - cached sections run once per key and replay their exact output.

Engine E2: for every program of a bounded family (which of page / def / nested def / named block / anonymous
block are cached, the key form, buffered+filter flags, where cache_* arguments are given) a BFS over histories of
{render(c), render(c) with a section body that raises, invalidate_*, cache.set/get, toggle cache_enabled, recompile} on the real Template(s) with a real backend, compared
step by step with a dict model and a small reference interpreter of the program's sections.
"""

import itertools
import os
import re

from mc import bfs, core
from mc.core import Stats

PROPERTY = "C17"
LEVEL = "model_checking"
ENGINE = "E2"
TECHNIQUE = "explicit-state BFS to a fixpoint over cache histories of generated templates on the real Template + backend, against a dict reference model and a section interpreter"
RULE = (
    "program = subset of {page, def d, nested def n, named block b, anonymous block} marked cached x key form x flags x cache_* placement; "
    "state = (backend content per template/key: which context created it or SET, cache_enabled); BFS over the event alphabet to the "
    "fixpoint. Non-trivial = states with at least one cache entry."
)
LEVEL_TEXT = (
    "For each generated program the reachable cache states are explored to a fixpoint; every transition executes the real render / "
    "invalidate / set / get on the real Template and backend (recording dict backend, Beaker memory; Beaker file and dogpile in the "
    "thorough tier) and compares output, per-section execution counters and the arguments the backend received with the model."
)
LEVEL_NOTE = (
    "Trusted: the 60-line section interpreter and dict model. Backends other than the recording one are observed through output and "
    "execution counters only. Timeouts are configured but time does not pass (expiry belongs to the backend)."
)
ASSUMPTIONS = [
    "cache expiry by time is the backend's business and is not exercised",
    "cache.set / cache.get are exercised on the in-tree recording backend only (dogpile's Mako plugin implements put(), not set(): NotImplementedError there is the third-party plugin's, found by the first thorough run and removed from the alphabet)",
    "the key is the name, not the arguments (documented): different arguments under one key replay the first output",
]
BOUNDS = {
    "quick": {"programs": "all single and pair placements x key forms x flags; 5 programs whose <%page> tag carries a cache_key of its own (literal / expression, page cached or not)", "history": "depth 8 (fixpoint where smaller)", "backends": "recording dict, beaker memory"},
    "thorough": {"programs": "all 31 placements x key forms x flags x cache_* placements", "history": "fixpoint", "backends": "recording dict (pass_context on/off), beaker memory, beaker file, dogpile memory"},
}
READY = True

PLACES = ["page", "d", "n", "b", "anon"]
CONTEXTS = {"c1": {"v": "1", "k": "ka"}, "c2": {"v": "2", "k": "ka"}, "c3": {"v": "3", "k": "kb"},
            # keys that are not strings: the key is the VALUE of cache_key, 5 and "5" are different keys
            "c4": {"v": "4", "k": 5}, "c5": {"v": "5", "k": "5"}, "c6": {"v": "6", "k": 5},
            # keys that are false in a boolean test: still the value of cache_key, not "no key"
            "c7": {"v": "7", "k": 0}, "c8": {"v": "8", "k": ""}, "c9": {"v": "9", "k": 0}}


def programs(tier):
    out = []
    sizes = (1, 2) if tier == "quick" else (1, 2, 3, 4, 5)
    for n in sizes:
        for sub in itertools.combinations(PLACES, n):
            if "d" in sub:
                keys = ["default", "literal", "ctx", "arg"] if (tier != "quick" or n == 1) else ["default", "ctx"]
                flags = (["", "bf"] if n == 1 else [""]) if tier == "quick" else ["", "b", "f", "bf"]
            else:
                keys = ["default"]
                flags = [""]
            for kf in keys:
                for fl in flags:
                    out.append({"cached": list(sub), "key": kf, "flags": fl, "args": "none"})
    for sub in (["d"], ["page"]):
        out.append({"cached": sub, "key": "default", "flags": "", "args": "none", "extra": "kwonly"})
    # cache_* arguments given at Template / page / section level (2^3 presence combinations), on two programs
    for sub in (["d"], ["page", "b"]):
        for mask in range(1, 8):
            out.append({"cached": sub, "key": "default", "flags": "", "args": mask})
    return out


def build_text(prog):
    """returns (text, info) ; info: anon block name"""
    c = set(prog["cached"])
    mask = prog["args"] if prog["args"] != "none" else 0
    lines = []
    page_attrs = []
    if "page" in c:
        page_attrs.append('cached="True"')
    if mask & 2:
        page_attrs.append('cache_timeout="60" cache_foo="pg" cache_bar="pg"')
    if prog.get("pagekey") == "literal":
        page_attrs.append('cache_key="PK"')  # the key of the PAGE's own entry; sections keep theirs
    elif prog.get("pagekey") == "ctx":
        page_attrs.append('cache_key="${k}"')
    lines.append("<%! \ndef tagf(s):\n    return 'f[' + s + ']'\n%>")
    if page_attrs:
        lines.append("<%page " + " ".join(page_attrs) + "/>")
    sect_args = ' cache_timeout="30" cache_foo="sec"' if mask & 4 else ""
    dattr = ""
    sig = "d(a='x')"
    if "d" in c:
        dattr = ' cached="True"' + sect_args
        if prog["key"] == "literal":
            dattr += ' cache_key="K1"'
        elif prog["key"] == "ctx":
            dattr += ' cache_key="${k}"'
        elif prog["key"] == "arg":
            dattr += ' cache_key="${a}"'
        elif prog["key"] == "mixed":
            dattr += ' cache_key="${k} ${a}"'  # two expressions separated by a blank: the key is their values joined by that blank
        if "b" in prog["flags"]:
            dattr += ' buffered="True"'
        if "f" in prog["flags"]:
            dattr += ' filter="tagf"'
    lines.append('<%%def name="%s"%s>${tick("d")}d:${v}:${a}</%%def>' % (sig, dattr))
    if prog.get("extra") == "kwonly":
        # a cached def with a keyword-only argument after *varargs, whose own name begins with "render_"
        lines.append('<%def name="render_k(l, *c, s=\'-\')" cached="True">${tick("k")}k:${v}:${l}${s}${s.join(c)}</%def>')
    nattr = ' cached="True"' if "n" in c else ""
    # the nested def is called while another buffer is open (a filtered anonymous block): what it writes - freshly or
    # from the cache - belongs to that buffer
    lines.append('<%%def name="o()">o[<%%def name="n()"%s>${tick("n")}n:${v}</%%def><%%block filter="tagf">${n()}</%%block>]</%%def>' % nattr)
    battr = (' cached="True"' + (sect_args if "d" not in c else "")) if "b" in c else ""
    aattr = ' cached="True"' if "anon" in c else ""
    body = 'B:${tick("body")}${v}|${d()}|${d("y")}|${o()}|<%%block name="b"%s>${tick("b")}b:${v}</%%block>|' % battr
    if prog.get("extra") == "kwonly":
        body += "${render_k('L', 'p', 'q', s='/')}|"
    lines.append(body)
    text = "\n".join(lines)
    anon_line = text.count("\n") + 2
    text += "\n<%%block%s>${tick(\"anon\")}anon:${v}</%%block>" % aattr
    return text, {"anon": "__M_anon_%d" % anon_line}


# --------------------------------------------------------------------------
# reference: sections, keys, expected output


class ModelBoom(Exception):
    pass


class Boom(Exception):
    pass


class BoomOS(Boom, FileNotFoundError):
    """an exception family a cache layer might mistake for a failure of its own backend"""


class BoomKey(Boom, KeyError):
    pass


FAULT_KINDS = {"exc": Boom, "os": BoomOS, "key": BoomKey}


class Model:
    def __init__(self, prog, info, tid):
        self.prog = prog
        self.c = set(prog["cached"])
        self.info = info
        self.tid = tid
        self.enabled = True
        self.store = {}  # key -> (text, tag)
        self.counts = {}
        self.lead = ""
        self.tag = "B:"
        self.ghost = ()
        self.fault = None

    def tick(self, name):
        self.counts[name] = self.counts.get(name, 0) + 1
        if name == self.fault or self.fault == "*":
            raise ModelBoom(name)

    def key_of(self, sec, ctx, a=None):
        if sec == "page":
            return {None: "render_body", "literal": "PK", "ctx": ctx["k"]}[self.prog.get("pagekey")]
        if sec == "d":
            kf = self.prog["key"]
            return {"default": "render_d", "literal": "K1", "ctx": ctx["k"], "arg": a, "mixed": "%s %s" % (ctx["k"], a)}[kf]
        if sec == "n":
            return "n"
        if sec == "b":
            return "render_b"
        if sec == "anon":
            return self.info["anon"]

    def cached_run(self, sec, key, tag, fn):
        if sec in self.c and self.enabled:
            if key in self.store:
                return self.store[key][0]
            out = fn()
            self.store[key] = (out, tag)
            return out
        return fn()

    def render(self, ctx, tag):
        v = ctx.get("v", "<missing>")
        if "v" not in ctx:
            # a section body that runs reads v: under strict_undefined that is a NameError; a section served
            # from the cache reads nothing
            self.fault = "*"

        def d(a):
            def run():
                self.tick("d")
                s = "d:%s:%s" % (v, a)
                if "d" in self.c and "f" in self.prog["flags"]:
                    s = "f[" + s + "]"
                return s

            return self.cached_run("d", self.key_of("d", ctx, a), tag, run)

        def n():
            def run():
                self.tick("n")
                return "n:%s" % v

            return self.cached_run("n", "n", tag, run)

        def b():
            def run():
                self.tick("b")
                return "b:%s" % v

            return self.cached_run("b", "render_b", tag, run)

        def anon():
            def run():
                self.tick("anon")
                return "anon:%s" % v

            return self.cached_run("anon", self.info["anon"], tag, run)

        def body():
            # the sections run in the order the template writes them (a fault stops the rest)
            self.tick("body")
            parts = [d("x"), d("y"), n(), b()]
            extra = ""
            if self.prog.get("extra") == "kwonly":
                def krun():
                    self.tick("k")
                    return "k:%s:L/p/q" % v

                if self.enabled and "render_render_k" in self.store:
                    extra = self.store["render_render_k"][0] + "|"
                else:
                    out = krun()
                    if self.enabled:
                        self.store["render_render_k"] = (out, tag)
                    extra = out + "|"
            parts.append(anon())
            return self.lead + self.tag + "%s|%s|%s|o[f[%s]]|%s|%s\n%s" % (v, parts[0], parts[1], parts[2], parts[3], extra, parts[4])

        return self.cached_run("page", self.key_of("page", ctx), tag, body)

    def has_page_tag(self):
        return "page" in self.c or bool(self.prog.get("pagekey")) or (self.prog["args"] != "none" and self.prog["args"] & 2)


# --------------------------------------------------------------------------
# world


_UNIQ = [0]
_SKEL = {}


class World:
    def __init__(self, cfg):
        from mako import cache as mcache
        from mako.template import Template

        from mako import codegen
        from mc import seams
        import time as _time

        self.cfg = cfg
        # module compile stamps: real time for the Beaker backends (Beaker stamps its entries with time.time()),
        # a simulated clock for the recording backend
        self.sm = seams.Seams()
        if cfg["backend"] == "rec":
            self.clock = seams.SimClock(1000.0)
            self.sm.set(codegen, "time", self.clock)
            seams.install_compile_memo(self.sm, self.clock)
        else:
            self.clock = None
        prog = cfg["prog"]
        text, info = build_text(prog)
        self.text = text
        backend = cfg["backend"]
        import mc.c17_cache as cc

        self.cc = cc
        if "c17rec" not in mcache._cache_plugins.impls:
            mcache.register_plugin("c17rec", "mc.c17_cache", "RecCache")
        cc.STORE.clear()
        del cc.LOG[:]
        cc.PASS_CONTEXT[0] = bool(cfg.get("pass_context"))
        cc.CLOCK[0] = 1000.0
        _UNIQ[0] += 1
        mask = prog["args"] if prog["args"] != "none" else 0
        targs = {}
        if mask & 1:
            targs = {"timeout": 99, "foo": "tmpl", "baz": "tmpl"}
        self.targs = dict(targs)
        kw = {}
        if backend == "rec":
            kw = {"cache_impl": "c17rec", "cache_args": dict(targs)}
            if cfg.get("strict"):
                kw["strict_undefined"] = True
        elif backend == "beaker-memory":
            kw = {"cache_impl": "beaker", "cache_args": {"type": "memory"}}
        elif backend == "beaker-file":
            self.dir = core.scratch_dir("c17-")
            kw = {"cache_impl": "beaker", "cache_args": {"type": "file", "dir": self.dir}}
        elif backend == "dogpile":
            from dogpile.cache import make_region

            reg = make_region().configure("dogpile.cache.memory")
            kw = {"cache_impl": "dogpile.cache", "cache_args": {"regions": {"r": reg}, "region": "r"}}
        uris = cfg.get("uris") or ["t17a"]
        uniq = "" if backend == "rec" else "_%d_%d" % (os.getpid(), _UNIQ[0])
        self.templates = []
        self.models = []
        for u in uris:
            t = Template(text, uri=u + uniq, **kw)
            self.templates.append(t)
            # the internal name of the anonymous block is whatever the code generator calls it (observed, not demanded)
            m_ = re.search(r"def (__M_anon_\w+)\(", t.code)
            info = dict(info, anon=m_.group(1) if m_ else info["anon"])
            self.models.append(Model(prog, info, t.uri))
        self.counts = {}
        self.uncached = None
        self.kw = kw
        self.version = [1] * len(self.templates)

    def close(self):
        self.sm.restore()

    def ctx(self, name, fault=None, fault_kind="exc"):
        c = dict(CONTEXTS[name])
        counts = self.counts

        def tick(n):
            counts[n] = counts.get(n, 0) + 1
            if n == fault:
                raise FAULT_KINDS[fault_kind](n)
            return ""

        c["tick"] = tick
        return c

    def step(self, ev):
        viols = []
        kind = ev[0]
        ti = ev[1] if len(ev) > 1 and isinstance(ev[1], int) else 0
        t = self.templates[ti]
        m = self.models[ti]
        out = kind
        try:
            if kind == "render":
                cname = ev[2]
                self.counts.clear()
                m.counts = {}
                del self.cc.LOG[:]
                m.lead = self.skeleton("")
                self.current_v = CONTEXTS[cname]["v"]
                got = t.render(**self.ctx(cname))
                exp = m.render(CONTEXTS[cname], cname)
                # the literal text between sections (newlines of the skeleton) comes from an uncached render of the same text
                exp_full = exp
                if got != exp_full:
                    viols.append(("render:output", "a cached section replays the output of the render that created its entry", exp_full, got))
                elif self.counts != m.counts:
                    viols.append(("render:executions", "a section body runs only when the backend has no value for its key", m.counts, dict(self.counts)))
                if self.cfg["backend"] == "rec" and not viols:
                    self.check_backend_args(m, viols)
                out = "render:%s" % ("hit" if sum(m.counts.values()) < 6 else "miss")
            elif kind == "fault":
                # a render during which the body of one section raises (if that section runs at all)
                cname, sec = ev[2], ev[3]
                fkind = ev[4] if len(ev) > 4 else "exc"
                self.counts.clear()
                m.counts = {}
                del self.cc.LOG[:]
                m.lead = self.skeleton("")
                self.current_v = CONTEXTS[cname]["v"]
                try:
                    got = t.render(**self.ctx(cname, fault=sec, fault_kind=fkind))
                    raised = False
                except Boom:
                    raised = True
                m.fault = sec
                try:
                    exp = m.render(CONTEXTS[cname], cname)
                    mraised = False
                except ModelBoom:
                    mraised = True
                finally:
                    m.fault = None
                if mraised and not raised:
                    viols.append(("fault:swallowed", "an exception raised in a section body propagates out of render()", "Boom raised", "returned %r" % (got[-60:],)))
                elif raised and not mraised:
                    viols.append(("fault:spurious", "a section served from the cache does not run its body", "output", "Boom raised"))
                elif not raised and got != exp:
                    viols.append(("render:output", "a cached section replays the output of the render that created its entry", exp, got))
                elif self.counts != m.counts:
                    viols.append(("render:executions", "a section body runs only when the backend has no value for its key", m.counts, dict(self.counts)))
                out = "fault:%s" % ("raised" if raised else "served")
            elif kind == "render_missing":
                # strict_undefined: a render whose data lacks a name the section bodies read
                self.counts.clear()
                m.counts = {}
                del self.cc.LOG[:]
                m.lead = self.skeleton("")
                c = self.ctx("c1")
                del c["v"]
                try:
                    got = t.render(**c)
                    raised = False
                except NameError:
                    raised = True
                try:
                    exp = m.render({"k": "ka"}, "cm")
                    mraised = False
                except ModelBoom:
                    mraised = True
                finally:
                    m.fault = None
                if mraised and not raised:
                    viols.append(("strict:missing-name-not-reported", "a section body that runs reports the name it cannot find", "NameError", "returned %r" % (got[-60:],)))
                elif raised and not mraised:
                    viols.append(("strict:name-demanded-by-a-section-served-from-the-cache", "a section served from the cache does not run its body and demands none of its names", "cached output", "NameError"))
                elif not raised and got != exp:
                    viols.append(("render:output", "a cached section replays the output of the render that created its entry", exp, got))
                out = "render_missing:%s" % ("raised" if raised else "served")
            elif kind == "invalidate_body":
                t.cache.invalidate_body()
                m.store.pop("render_body", None)
            elif kind == "invalidate_def":
                t.cache.invalidate_def(ev[2])
                m.store.pop("render_%s" % ev[2], None)
            elif kind == "invalidate_closure":
                t.cache.invalidate_closure(ev[2])
                m.store.pop(ev[2], None)
            elif kind == "invalidate":
                t.cache.invalidate(ev[2])
                m.store.pop(ev[2], None)
            elif kind == "set":
                t.cache.set(ev[2], "SET!")
                m.store[ev[2]] = ("SET!", "set")
            elif kind == "get":
                got = t.cache.get(ev[2])
                if self.cfg["backend"] == "rec":
                    exp = m.store.get(ev[2], (None,))[0]
                    if got != exp:
                        viols.append(("get:value", "cache.get returns the stored value", exp, got))
            elif kind == "toggle":
                t.cache_enabled = not t.cache_enabled
                m.enabled = t.cache_enabled
            elif kind == "recompile":
                # the source changed: a new Template under the same URI (same cache id), compiled later
                from mako.template import Template
                import time as _time

                if self.clock is not None:
                    self.clock.now += 5
                    self.cc.CLOCK[0] = self.clock.now
                else:
                    _time.sleep(0.002)
                self.version[ti] += 1
                text2 = self.text.replace("B:", "B%d:" % self.version[ti])
                t2 = Template(text2, uri=t.uri, **self.kw)
                t2.cache_enabled = t.cache_enabled
                self.templates[ti] = t2
                m2 = Model(m.prog, m.info, t.uri)
                m2.enabled = m.enabled
                m2.tag = "B%d:" % self.version[ti]
                m2.lead = m.lead
                # ghost: what the predecessor had stored.  The model never uses it (those entries must not be served),
                # but it keeps "recompiled over a filled cache" distinct from "recompiled over an empty one" in the search
                m2.ghost = tuple(sorted(map(repr, m.store)))
                self.models[ti] = m2  # entries of the predecessor are never served to the recompiled template
        except BaseException as e:  # noqa
            viols.append(("%s:exception:%s" % (kind, type(e).__name__), "the operation succeeds", "no exception", "%s: %s" % (type(e).__name__, str(e)[:150])))
            out = kind + ":exception"
        return out, viols

    def skeleton(self, exp_body):
        """the newlines of the skeleton in front of the body text are literal output; they are taken from an
        uncached render of the same text (everything from 'B:' on comes from the model)"""
        if self.uncached is None and self.text in _SKEL:
            self.uncached = _SKEL[self.text]
        if self.uncached is None:
            from mako.template import Template

            t = Template(self.text.replace(' cached="True"', ""))
            o = t.render(tick=lambda n: "", **CONTEXTS["c1"])
            self.uncached = _SKEL[self.text] = o[: o.index("B:")]  # the literal newlines in front of the body text
        return self.uncached + exp_body

    def check_backend_args(self, m, viols):
        prog = self.cfg["prog"]
        mask = prog["args"] if prog["args"] != "none" else 0
        for op, cid, key, kw in self.cc.LOG:
            if op != "get_or_create":
                continue
            exp = dict(self.targs)
            if mask & 2:
                exp.update({"timeout": 60, "foo": "pg", "bar": "pg"})
            sect = None
            if key in ("render_d", "K1", "ka", "kb", "x", "y") and "d" in m.c:
                sect = "d"
            elif key == "render_b" and "b" in m.c:
                sect = "b"
            if mask & 4 and (sect == "d" or (sect == "b" and "d" not in m.c)):
                exp.update({"timeout": 30, "foo": "sec"})
            kw2 = dict(kw)
            ctx = kw2.pop("context", None)
            if self.cfg.get("pass_context"):
                if ctx is None:
                    viols.append(("backend:context-missing", "the backend receives the rendering context when it asks for it", "context", "absent"))
                elif ctx.get("v") != self.current_v:
                    viols.append(("backend:context-stale", "the backend receives the context of the render in progress", "v=%s" % self.current_v, "v=%s" % ctx.get("v")))
            elif ctx is not None:
                viols.append(("backend:context-unasked", "the context is passed only when the backend asks for it", "absent", "context"))
            if kw2 != exp or any(type(kw2[k]) is not type(exp[k]) for k in exp):
                viols.append(("backend:args", "Template cache_args < page cache_* < section cache_*, timeout as int", exp, {k: repr(v) for k, v in kw2.items()}))
                return


def lead_wrap(text, exp_body, lead):
    return lead + exp_body


def events(cfg):
    prog = cfg["prog"]
    c = set(prog["cached"])
    ev = []
    nt = len(cfg.get("uris") or [1])
    for ti in range(nt):
        for cn in prog.get("ctxs") or (("c1", "c2", "c3") if prog["key"] == "ctx" else ("c1", "c2")):
            ev.append(("render", ti, cn))
        if cfg.get("strict"):
            ev.append(("render_missing", ti))
        if ti == 0 and not cfg.get("nofault"):
            secs = [x for x in ("d", "n", "b") if x in c] + ["anon"]
            if prog.get("extra") == "kwonly":
                secs.append("k")
            for sec in secs:
                ev.append(("fault", ti, "c1", sec))
            for sec in secs[:1]:
                # (the outcome of a fault does not depend on its class in a correct implementation: these add no states)
                ev.append(("fault", ti, "c1", sec, "os"))
                ev.append(("fault", ti, "c1", sec, "key"))
        if "page" in c:
            ev.append(("invalidate_body", ti))
            if prog.get("pagekey"):
                ev.append(("invalidate", ti, "PK" if prog["pagekey"] == "literal" else "ka"))
        if "d" in c:
            ev.append(("invalidate_def", ti, "d"))
            if prog["key"] == "literal":
                ev.append(("invalidate", ti, "K1"))
            if prog["key"] == "ctx" and prog.get("ctxs"):
                ks = []
                for cn_ in prog["ctxs"]:
                    if CONTEXTS[cn_]["k"] not in ks or type(CONTEXTS[cn_]["k"]) not in [type(x) for x in ks if x == CONTEXTS[cn_]["k"]]:
                        ks.append(CONTEXTS[cn_]["k"])
                for k_ in ks[:2]:
                    ev.append(("invalidate", ti, k_))
            elif prog["key"] == "ctx":
                ev.append(("invalidate", ti, "ka"))
            if prog["key"] == "arg":
                ev.append(("invalidate", ti, "y"))
            if prog["key"] == "mixed":
                ev.append(("invalidate", ti, "ka x"))
                ev.append(("invalidate", ti, "kax"))
        if "b" in c:
            ev.append(("invalidate_def", ti, "b"))
        if prog.get("extra") == "kwonly":
            ev.append(("invalidate_def", ti, "render_k"))
        if "n" in c:
            ev.append(("invalidate_closure", ti, "n"))
        if nt == 1:
            firstkey = {"page": "render_body", "d": {"default": "render_d", "literal": "K1", "ctx": "ka", "arg": "x", "mixed": "ka x"}[prog["key"]], "n": "n", "b": "render_b"}
            for s_ in prog["cached"]:
                if s_ in firstkey and cfg["backend"] == "rec":
                    ev.append(("set", ti, firstkey[s_]))
                    ev.append(("get", ti, firstkey[s_]))
                    break
            ev.append(("toggle", ti))
            if cfg["backend"] != "dogpile" and not cfg.get("norecompile"):
                ev.append(("recompile", ti))
    return ev


KEY_UNIVERSE = ["render_body", "PK", "render_d", "K1", "ka", "kb", "x", "y", "n", "render_b", "render_render_k", 5, "5", 0, "", "ka x", "ka y", "kb x", "kb y", "kax", "kay"]


def real_state(w):
    """what the real backend holds, observed from outside the code under test.  It is part of the search key
    (never an oracle): where an implementation leaves the backend in another state than the model expects
    without any visible symptom yet, the search continues from THAT state instead of merging it with the
    state the model believes in."""
    out = []
    for ti, t in enumerate(w.templates):
        # sections whose arguments the Cache object has memoised (first-use state of the template)
        out.append(("memo", ti, tuple(sorted(getattr(t.cache, "_def_regions", {})))))
    if w.cfg["backend"] == "rec":
        starts = {t.cache.id: t.cache.starttime for t in w.templates}
        for (cid, k), (val, stamp) in sorted(w.cc.STORE.items(), key=lambda kv: (str(kv[0][0]), str(kv[0][1]))):
            fresh = stamp >= starts.get(cid, 0)
            out.append((str(cid), repr(k), str(val) if fresh else "<stale>"))
        return tuple(map(str, out))
    for ti, t in enumerate(w.templates):
        keys = KEY_UNIVERSE + [w.models[ti].info["anon"]]
        for k in keys:
            try:
                v = t.cache.impl.get(k, **dict(t.cache.template.cache_args))
            except BaseException:  # noqa
                v = None
            if v is not None and type(v).__name__ != "NoValue":
                out.append((ti, repr(k), str(v)))
    return tuple(map(str, out))


def key_of(w):
    return tuple(w.version) + tuple((tuple(sorted(((repr(k), v[1] if v[1] == "set" else v[0]) for k, v in m.store.items()))), m.enabled, m.ghost) for m in w.models) + (real_state(w),)


def initial_key(cfg):
    w = World(cfg)
    try:
        return key_of(w)
    finally:
        w.close()


def expand(cfg, hist):
    out = []
    for ev in events(cfg):
        if ev[0] == "recompile" and any(h[0] == "recompile" for h in hist):
            continue  # one recompilation per history keeps the state space finite
        w = World(cfg)
        try:
            for h in hist:
                w.step(tuple(h))
            outcome, viols = w.step(ev)
            key = key_of(w)
            nontriv = any(m.store for m in w.models)
        finally:
            w.close()
        uris = cfg.get("uris")
        if viols and uris and len({re.sub(r"\W", "_", u) for u in uris}) < len(uris):
            # attribute to the URI collision only what disappears with URIs that differ in a word character
            w2 = World(dict(cfg, uris=["t17a", "t17b"]))
            try:
                for h in hist:
                    w2.step(tuple(h))
                _, v2 = w2.step(ev)
            finally:
                w2.close()
            if not v2:
                viols = [("cross-template:uris-differ-only-in-punctuation", o, e_, ob) for (sig, o, e_, ob) in viols]
        out.append({"ev": list(ev), "key": key, "outcome": outcome, "viol": viols, "nontrivial": nontriv, "steps": len(hist) + 1})
    return out


def configs(tier):
    cfgs = []
    backends = ["rec", "beaker-memory"] if tier == "quick" else ["rec", "beaker-memory", "beaker-file", "dogpile"]
    for prog in programs(tier):
        for be in backends:
            if prog["args"] != "none" and be != "rec":
                continue
            if be in ("beaker-file", "dogpile") and len(prog["cached"]) > 2:
                continue
            if tier == "quick" and be != "rec" and (len(prog["cached"]) > 1 or prog["flags"]):
                continue
            cfgs.append({"prog": prog, "backend": be, "max_depth": 30 if tier != "quick" else 8})
            if be == "rec" and prog["args"] != "none":
                cfgs.append({"prog": prog, "backend": be, "pass_context": True, "max_depth": 30})
    # strict_undefined: names are demanded by the bodies that run, not by sections served from the cache
    for sub in (["page"], ["page", "d"], ["d"]):
        cfgs.append({"prog": {"cached": sub, "key": "default", "flags": "", "args": "none"}, "backend": "rec", "strict": True, "max_depth": 30 if tier != "quick" else 6, "nofault": True})
    # cache keys that are not strings
    for be in backends[:2] if tier == "quick" else backends:
        cfgs.append({"prog": {"cached": ["d"], "key": "ctx", "flags": "", "args": "none", "ctxs": ["c4", "c5", "c6"]}, "backend": be, "max_depth": 30 if tier != "quick" else 7, "nofault": True})
    # a cache_key made of two expressions and a blank between them
    for be in backends[:2]:
        cfgs.append({"prog": {"cached": ["d"], "key": "mixed", "flags": "", "args": "none"}, "backend": be, "max_depth": 30 if tier != "quick" else 6, "nofault": True})
    # the <%page> tag carries a cache_key of its own (page cached or not): sections without one keep their default keys
    for sub, pk in ((["d", "b"], "literal"), (["n", "anon"], "literal"), (["page", "d"], "literal"), (["d"], "ctx"), (["page", "b"], "ctx")):
        for be in backends[:2] if tier != "quick" else backends[:1]:
            cfgs.append({"prog": {"cached": sub, "key": "default", "flags": "", "args": "none", "pagekey": pk}, "backend": be, "max_depth": 30 if tier != "quick" else 6, "nofault": True})
    # cache keys that are false in a boolean test (0, '')
    for be in backends[:2] if tier == "quick" else backends[:3]:
        cfgs.append({"prog": {"cached": ["d"], "key": "ctx", "flags": "", "args": "none", "ctxs": ["c7", "c8", "c9"]}, "backend": be, "max_depth": 30 if tier != "quick" else 6, "nofault": True})
    # several templates sharing one backend; URIs that differ only in punctuation
    for uris in (["t17a", "t17b"], ["t-x", "t_x"]):
        for be in backends[:2]:
            cfgs.append({"prog": {"cached": ["d"], "key": "default", "flags": "", "args": "none"}, "backend": be, "uris": uris, "max_depth": 30 if tier != "quick" else 8})
            cfgs.append({"prog": {"cached": ["page", "b"], "key": "default", "flags": "", "args": "none"}, "backend": be, "uris": uris, "max_depth": 30 if tier != "quick" else 8})
    return cfgs


def label(c):
    p = c["prog"]
    return "cached=%s%s key=%s flags=%s args=%s backend=%s%s%s" % (
        "+".join(p["cached"]), "+kwonly" if p.get("extra") else "", p["key"], p["flags"] or "-", p["args"], c["backend"], " ctx" if c.get("pass_context") else "", (" uris=%s" % c["uris"] if c.get("uris") else "") + (" strict" if c.get("strict") else "") + (" ctxs=%s" % "+".join(p["ctxs"]) if p.get("ctxs") else "") + (" pagekey=%s" % p["pagekey"] if p.get("pagekey") else ""))


def plan(tier, seed):
    return []


def run_job(job):
    return Stats()


def post(tier, seed, st):
    cfgs = configs(tier)
    bfs.run_bfs("mc.props.c17", cfgs, st, max_depth=30, max_states=20000, deadline_s=60 if tier == "quick" else 780, label=label)
    st.extra["programs"] = len({label(c).split(" backend")[0] for c in cfgs})
    # keep the evidence readable: summarise the per-config table
    info = st.extra.get("bfs", {})
    st.extra["bfs_summary"] = {
        "configs": len(info),
        "fixpoints": sum(1 for v in info.values() if v["fixpoint"]),
        "max_states": max((v["states"] for v in info.values()), default=0),
        "max_depth": max((v["depth"] for v in info.values()), default=0),
    }
    if len(info) > 40:
        keep = dict(list(info.items())[:40])
        st.extra["bfs"] = keep


def replay(case):
    w = World(case["cfg"])
    try:
        hist = [tuple(h) for h in case["hist"]]
        for h in hist[:-1]:
            w.step(h)
        outcome, viols = w.step(hist[-1])
    finally:
        w.close()
    if viols:
        return False, "reproduced: %r" % (viols[0],)
    return True, "holds"
