"""C01 - literal text and the documented escapes are reproduced exactly.

Engine E1: exhaustive enumeration of
  (a) all words of <= k tokens over a directive-fragment alphabet,
  (b) all documents of <= m well-formed units x junctions,
  (c) all repetition families p.w^n.s of a bounded shape (time bound),
each executed on the real Lexer / Template and compared with independent
oracles (outcome class, span tiling, positions, reference segmenter, time).
"""

import io
import itertools
import os
import re
import signal
import subprocess
import sys
import time
import zlib

from mc import core
from mc.core import Stats

class _Timeout(BaseException):
    """raised by the wall-clock deadline of a word check; never swallowed"""


PROPERTY = "C01"
LEVEL = "model_checking"
RULE = (
    "(a) every concatenation of <=k tokens of the directive-fragment alphabet (canonical = the resulting "
    "string, de-duplicated); (b) every sequence of <=m well-formed units x junction contexts; (c) every "
    "repetition family p.w^n.s of the stated shape. Non-trivial = the string contains at least one "
    "directive trigger (<% </% ${ line-leading % or ##, backslash-newline, %%)."
)
ASSUMPTIONS = [
    "the reference segmenter implements only the documented rules; anything else is DONT_CARE for rendering",
    "time bound is measured in CPU seconds of a child process (doubling ratio, hard CPU limit), not enumerated; thresholds are far from measured polynomial cases",
    "CPython re, eval/exec and str are trusted",
]
BOUNDS = {
    "quick": {"text_sections": "<%text> bodies: every sequence of <=3 of 16 pieces that are directives / escapes / tag fragments outside the section, with and without surrounding text", "cmd": "mako-render given a template file (plain and with a byte-order mark): all sequences of <=3 of 10 pieces with CR, CR LF, escapes ending in CR LF, a <%text> body with CR; output equals the library's render", "bytes": "documents given as bytes (BOM+bytes, bytes, BOM+file): all sequences of <=2 (3 with special first two) over 14 pieces incl. U+FEFF U+FEFB U+FFFB U+FFFF U+F000 U+EFFF", "k_full": 3, "k_core": 4, "units": "<=2 all junctions, 3 with junctions {'',LF}; each also through render() under a rotating output_encoding (utf-8, utf-16, utf-8-sig, utf-32, utf-16-le, utf-7) and decoded", "rep_max": 256, "time_limit": 4},
    "thorough": {"bytes": "as quick", "k_full": 4, "k_core": 5, "units": "<=2 all junctions, 3 with junctions {'',LF,CRLF}, 4 without junctions", "rep_max": 4096, "time_limit": 20},
}

POOL_ASCII = ["a", "b", "z", "Q"]
POOL_L1 = ["\u00e9", "\u00df", "\u0436", "\u4e2d"]
POOL_ASTRAL = ["\U0001d11e", "\U0001f600", "\U00010348"]


def alphabet(seed):
    a = POOL_ASCII[seed % len(POOL_ASCII)]
    e = POOL_L1[seed % len(POOL_L1)]
    g = POOL_ASTRAL[seed % len(POOL_ASTRAL)]
    full = [
        "<%", "%>", "</%", "${", "}", "%", "%%", "##", "\\", "\n", "\r\n", '"', "'", "|", ">", "/",
        "<", "#", "$", " ", "\t", a, e, g, "<%text>", "</%text>", "<%doc>", "</%doc>", "if x:", "endif",
        "\r",
    ]
    core_ = ["<%", "%>", "</%", "${", "}", "%", "##", "\\", "\n", "\r\n", '"', " ", a, ">"]
    return full, core_


def magic_alphabet(seed):
    """lines that look like magic encoding comments, and '#' lines, in every position"""
    a = POOL_ASCII[seed % len(POOL_ASCII)]
    return ["# coding: utf-8\n", "## -*- coding: utf-8 -*-\n", "# coding: utf-8\r\n", "# coding: utf-8", "#" + a + "\n", "##" + a + "\n", "\n", a, " ", "${'lit'}", "\\\n"]


# --------------------------------------------------------------------------
# reference segmenter: documented rules only; None = DONT_CARE

_CLOSE_TAG = re.compile(r"</%[\t ]*[^\t ]+?[\t ]*>", re.S)
_LIT_EXPR = re.compile(r"\$\{'([A-Za-z0-9 ]*)'\}")


_IF_LINE = re.compile(r"[ \t]*% (?:if True:|endif)(?:\r?\n|\Z)")


_CODING = re.compile(r"#.*coding[:=]\s*([-\w.]+).*\r?\n")


def ref_render(s, units=False):
    # a magic encoding comment is one on the FIRST line (one or two '#'): that line is no content
    m = _CODING.match(s)
    if m:
        s = s[m.end():]
    out = []
    i, n = 0, len(s)
    joined = False  # previous line ended with backslash-newline
    depth = 0
    while i < n:
        bol = i == 0 or s[i - 1] == "\n"
        if bol:
            j = i
            while j < n and s[j] in " \t":
                j += 1
            if s.startswith("##", j) or (s.startswith("%", j) and not s.startswith("%%", j)):
                if joined:
                    return None  # directive-looking start of a continued line: not documented
                if s.startswith("%", j):
                    m = _IF_LINE.match(s, i) if units else None
                    if not m:
                        return None  # control line: other properties
                    if "endif" in m.group(0):
                        depth -= 1
                        if depth < 0:
                            return None  # unmatched endif: an error by design
                    else:
                        depth += 1
                    i = m.end()  # a well-formed control line vanishes with its terminator
                    continue
                # comment line: vanishes with its terminator
                k = j
                while k < n and s[k] not in "\r\n":
                    if s[k] == "\\" and (s.startswith("\\\n", k) or s.startswith("\\\r\n", k)):
                        return None  # continuation inside a comment line: not documented
                    k += 1
                if k < n and s[k] == "\r" and not s.startswith("\r\n", k):
                    return None  # lone CR inside a comment line: not documented
                if s.startswith("\r\n", k):
                    k += 2
                elif k < n:
                    k += 1
                i = k
                joined = False
                continue
            # line-leading %%
            j2 = j
            while j2 < n and s[j2].isspace() and s[j2] != "\n":
                j2 += 1
            if j2 != j and s.startswith("%", j2):
                return None  # exotic whitespace (lone CR ...) before a line-leading %: not documented
            if s.startswith("%%", j):
                if joined:
                    return None
                k = j + 2
                while k < n and s[k] == "%":
                    k += 1
                out.append(s[i:j] + "%" + s[j + 2 : k])
                i = k
                joined = False
                continue
        joined = False
        c = s[i]
        if c == "\\" and (s.startswith("\\\n", i) or s.startswith("\\\r\n", i)):
            i += 2 if s[i + 1] == "\n" else 3
            joined = True
            continue
        if c == "$" and s.startswith("${", i):
            m = _LIT_EXPR.match(s, i)
            if not m:
                return None
            out.append(m.group(1))
            i = m.end()
            continue
        if c == "<" and s.startswith("<%doc>", i):
            k = s.find("</%doc>", i + 6)
            if k < 0:
                return None
            i = k + 7
            continue
        if c == "<" and s.startswith("<%text>", i):
            k = s.find("</%text>", i + 7)
            if k < 0:
                return None
            out.append(s[i + 7 : k])
            i = k + 8
            continue
        if units and c == "<" and s.startswith("<% pass %>", i):
            i += 10
            continue
        if c == "<" and s.startswith("<%", i):
            return None
        if c == "<" and s.startswith("</%", i):
            if _CLOSE_TAG.match(s, i):
                return None
            # a stray </% that forms no closing tag is literal text
        out.append(c)
        i += 1
    if depth:
        return None
    return "".join(out)


_TRIGGER = re.compile(r"<%|</%|\$\{|(?m:^[ \t]*(?:%|##))|\\\r?\n")


def nontrivial(s):
    return bool(_TRIGGER.search(s))


# --------------------------------------------------------------------------
# instrumented lexer (subclass: the real methods run unchanged)

_lexmod = None


def tracing_lexer():
    global _lexmod
    if _lexmod is not None:
        return _lexmod
    from mako.lexer import Lexer

    class TracingLexer(Lexer):
        def __init__(self, *a, **k):
            super().__init__(*a, **k)
            self.spans = []
            self._pdepth = 0

        def match_reg(self, reg):
            mp = self.match_position
            m = Lexer.match_reg(self, reg)
            if m is not None and self._pdepth == 0:
                self.spans.append((mp, m.end(), self.match_position, m.start()))
            return m

        def parse_until_text(self, *a):
            start = self.match_position
            self._pdepth += 1
            try:
                r = Lexer.parse_until_text(self, *a)
            finally:
                self._pdepth -= 1
            if self._pdepth == 0:
                self.spans.append((start, self.match_position, self.match_position, start))
                # the returned slice must be exactly the scanned source up to the terminator
                body, term = r
                if self.text[start : self.match_position] != body + term:
                    self.spans.append(("slice", start, self.match_position, body + term))
            return r

    _lexmod = TracingLexer
    return TracingLexer


def _offset(text, lineno, pos):
    # lineno: 1-based count of \n; pos: 1-based column
    off = 0
    for _ in range(lineno - 1):
        k = text.find("\n", off)
        if k < 0:
            return None
        off = k + 1
    return off + pos - 1


def check_lex(s, st):
    """oracles 1-3 on one string.  returns (outcome, viol or None, tree)"""
    from mako import exceptions, parsetree

    TL = tracing_lexer()
    lx = TL(s)
    try:
        tree = lx.parse()
    except (exceptions.SyntaxException, exceptions.CompileException) as e:
        st.oracles["outcome_class"] += 1
        nlines = s.count("\n") + 1
        if not (0 <= (e.lineno or 0) <= nlines + 1):
            return "exc", ("excpos", "exception lineno outside the source", (e.lineno, e.pos)), None
        return "exc:" + type(e).__name__, None, None
    except RecursionError:
        return "recursion", None, None
    except _Timeout:
        raise
    except BaseException as e:  # noqa
        return "other", ("outcome", "non-Mako exception from Lexer.parse", "%s: %s" % (type(e).__name__, e)), None
    st.oracles["outcome_class"] += 1
    text = lx.text
    # oracle 2: spans tile the source, no real character is stepped over
    st.oracles["tiling"] += 1
    prev_end = 0  # end of the text accounted for so far
    for sp in lx.spans:
        if sp[0] == "slice":
            return "ok", ("slice", "parse_until_text returned text that is not the scanned slice", list(sp[1:])), tree
        mp, end, newpos, mstart = sp
        if mstart != mp:
            return "ok", ("tiling", "match does not start at the cursor", [mp, mstart]), tree
        if mp < prev_end:
            return "ok", ("dup", "source text matched twice", {"offset": mp, "context": text[max(0, mp - 3) : mp + 4]}), tree
        if mp > prev_end and prev_end < len(text):
            return "ok", ("drop", "character stepped over by an empty match", {"offset": prev_end, "char": text[prev_end], "context": text[max(0, prev_end - 3) : prev_end + 4]}), tree
        prev_end = end
    if prev_end < len(text):
        if lx.match_position > prev_end:
            return "ok", ("drop", "character stepped over by an empty match", {"offset": prev_end, "char": text[prev_end], "context": text[max(0, prev_end - 3) : prev_end + 4]}), tree
        return "ok", ("tiling", "lexer stopped before the end of the source", [prev_end, len(text)]), tree
    # oracle 3: reported positions land on the node's own syntax
    st.oracles["positions"] += 1

    def walk(nodes):
        for nd in nodes:
            off = _offset(text, nd.lineno, nd.pos)
            bad = None
            if off is None or off < 0 or off > len(text):
                bad = "position outside the source"
            elif isinstance(nd, parsetree.Text):
                c = nd.content
                if text[off : off + len(c)] != c:
                    p = c.find("%")
                    if not (
                        p >= 0
                        and text[off : off + p] == c[:p]
                        and text[off + p : off + p + 2] == "%%"
                        and text[off + p + 2 : off + len(c) + 1] == c[p + 1 :]
                    ):
                        bad = "Text content differs from the source at its position"
            elif isinstance(nd, parsetree.Expression):
                if text[off : off + 2] != "${":
                    bad = "Expression not at ${"
            elif isinstance(nd, parsetree.Code):
                if text[off : off + 2] != "<%":
                    bad = "Code not at <%"
            elif isinstance(nd, parsetree.ControlLine):
                if not re.match(r"[\t ]*%", text[off:]):
                    bad = "ControlLine not at line-leading %"
            elif isinstance(nd, parsetree.Comment):
                if not (text.startswith("<%doc>", off) or re.match(r"[\t ]*##", text[off:])):
                    bad = "Comment not at ## or <%doc>"
            elif isinstance(nd, parsetree.Tag):
                if not text.startswith("<%" + nd.keyword, off):
                    bad = "Tag not at <%keyword"
            if bad:
                return ("position", bad, {"node": type(nd).__name__, "lineno": nd.lineno, "pos": nd.pos, "offset": off})
            kids = getattr(nd, "nodes", None)
            if kids and isinstance(nd, parsetree.Tag):
                r = walk(kids)
                if r:
                    return r
        return None

    r = walk(tree.nodes)
    if r:
        return "ok", r, tree
    return "ok", None, tree


def check_render(s, st):
    """oracle 4.  returns (outcome, viol or None)"""
    exp = ref_render(s)
    if exp is None:
        return "dontcare", None
    from mako.template import Template

    st.oracles["render"] += 1
    try:
        got = Template(s).render_unicode()
    except _Timeout:
        raise
    except BaseException as e:  # noqa
        return "render-exc", ("render", "documented-literal document does not render", {"expected": exp, "error": "%s: %s" % (type(e).__name__, str(e)[:200])})
    if got != exp:
        return "render-diff", ("render", "output differs from the documented text", {"expected": exp, "observed": got})
    return "render-ok", None


PREPROCESSORS = {
    "lengthen": lambda t: t + "\n" + t,
    "prefix": lambda t: "zz" + t,
    "shrink": lambda t: t[: (len(t) + 1) // 2],
    "two": [lambda t: t + "q", lambda t: t + t],
}


def _dump(nodes, parsetree):
    out = []
    for nd in nodes:
        item = [type(nd).__name__, nd.lineno, nd.pos]
        for a in ("content", "text", "keyword", "isend", "ismodule"):
            if hasattr(nd, a):
                item.append(getattr(nd, a))
        if isinstance(nd, parsetree.Tag):
            item.append(_dump(nd.nodes, parsetree))
        out.append(item)
    return out


def check_preprocess(s, st):
    """a preprocessor rewrites the text before lexing: the tree must be the tree of the rewritten text"""
    from mako import exceptions, parsetree
    from mako.lexer import Lexer

    for name, pp in PREPROCESSORS.items():
        t = s
        for f in pp if isinstance(pp, list) else [pp]:
            t = f(t)

        def lex(text, **kw):
            try:
                return ("ok", _dump(Lexer(text, **kw).parse().nodes, parsetree))
            except (exceptions.SyntaxException, exceptions.CompileException) as e:
                return ("exc", type(e).__name__, e.lineno, e.pos)
            except _Timeout:
                raise
            except BaseException as e:  # noqa
                return ("other", type(e).__name__)

        st.oracles["preprocess"] += 1
        a = lex(s, preprocessor=pp)
        b = lex(t)
        if a != b:
            return ("preprocess", "lexing with a preprocessor differs from lexing the preprocessed text", {"preprocessor": name, "with_preprocessor": a, "preprocessed_text": b})
    return None


def drop_signature(s, info):
    # footprint of a dropped character: the character and what follows it
    off = info["offset"]
    return "drop:%r before %r" % (s[off], s[off + 1 : off + 3])


_TIMEOUTS = [0]


class _deadline:
    """a wall-clock limit for code that loops at Python level (a regular expression that backtracks inside the
    C matcher is not interrupted by this: those inputs belong to the time families, which run in child processes)"""

    def __init__(self, seconds):
        self.seconds = seconds

    def __enter__(self):
        import signal

        def onalarm(signum, frame):
            raise _Timeout()

        self.old = signal.signal(signal.SIGALRM, onalarm)
        signal.setitimer(signal.ITIMER_REAL, self.seconds, 0.5)

    def __exit__(self, *a):
        import signal

        signal.setitimer(signal.ITIMER_REAL, 0)
        signal.signal(signal.SIGALRM, self.old)
        return False


def check_string(s, st, kind):
    limit = 5 if _TIMEOUTS[0] < 3 else 1  # (a few long waits per worker, then short ones: the signature is the same)
    try:
        with _deadline(limit):
            return _check_string(s, st, kind)
    except _Timeout:
        _TIMEOUTS[0] += 1
        st.violation("time:short-input-does-not-terminate", {"kind": kind, "text": s}, "time: lexing / rendering a short input finishes", observed="still running after %d s" % limit)


def _check_string(s, st, kind):
    st.evaluations += 1
    st.states += 1
    st.transitions += 1
    st.traces += 1
    if nontrivial(s):
        st.nontrivial += 1
    out, v, tree = check_lex(s, st)
    rv = None
    rout = "-"
    if v is None and out == "ok" or (v is None and out.startswith("exc")):
        rout, rv = check_render(s, st)
    st.outcomes[(out, rout)] += 1
    pv = check_preprocess(s, st) if len(s) <= 12 else None
    for vv in (v, rv, pv):
        if vv is None:
            continue
        oracle, msg, detail = vv
        if oracle == "drop":
            sig = drop_signature(s, detail)
        elif oracle == "render":
            sig = "render:" + _render_sig(s, detail)
        elif oracle == "preprocess":
            sig = "preprocess:" + detail["preprocessor"]
        else:
            sig = oracle + ":" + msg
        st.violation(sig, {"kind": kind, "text": s}, oracle + ": " + msg, observed=detail)
    if st.evaluations % 997 == 1:
        st.sample({"kind": kind, "text": s, "lex": out, "render": rout})


def _render_sig(s, d):
    exp, obs = d.get("expected"), d.get("observed")
    if obs is None:
        return "exception " + d.get("error", "").split(":")[0]
    # first differing position in terms of source context
    i = 0
    while i < min(len(exp), len(obs)) and exp[i] == obs[i]:
        i += 1
    return "diff exp=%r obs=%r" % (exp[i : i + 3], obs[i : i + 3])


# --------------------------------------------------------------------------
# (b) unit documents


def units(seed):
    a = POOL_ASCII[seed % len(POOL_ASCII)]
    e = POOL_L1[seed % len(POOL_L1)]
    g = POOL_ASTRAL[seed % len(POOL_ASTRAL)]
    return [
        a + e,  # text run
        g,
        "5% x",  # stray %, #, $, <, backslash in non-directive positions
        "x # y",
        "$ {" + a + "$",
        "< % <" + a,
        "\\" + a,
        "${'lit'}",
        "%%" + a,  # documented at line start; elsewhere literal
        "## c ${x} <%\n",
        "<%doc>d\n${x}\n</%doc>",
        "<%text>${y}<%z\n% if q:\n</%text>",
        "\\\n",
        "% if True:\n" + a + "\n% endif\n",
        "<% pass %>",
        "</% " + a,
    ]


JUNCTIONS = ["", "\n", "\r\n", " ", "\n  "]


def unit_docs(tier, seed):
    U = units(seed)
    full = range(len(JUNCTIONS))
    two = (0, 1)
    if tier == "quick":
        spec = [(1, full), (2, full), (3, two)]
    else:
        spec = [(1, full), (2, full), (3, (0, 1, 2)), (4, (0,))]
    for n, js in spec:
        for combo in itertools.product(range(len(U)), repeat=n):
            for junc in itertools.product(js, repeat=n + 1):
                parts = [JUNCTIONS[junc[0]]]
                for i, ui in enumerate(combo):
                    parts.append(U[ui])
                    parts.append(JUNCTIONS[junc[i + 1]])
                yield "".join(parts)


# --------------------------------------------------------------------------
# jobs


# --------------------------------------------------------------------------
# <%text> bodies: "the body of <%text> is emitted verbatim" - every sequence of <= 3 pieces that would be directives,
# escapes or tag fragments outside <%text> (and repeated '<'), with text before and after the section

TEXT_BODY = ["<", "<<", "<%", "</%", "</%text", "${x}", "${", "## c\n", "\n%% p\n", "\n% if x:\n", "\\\n", "<%doc>d</%doc>", "<%def name='f()'>", "a", ">", "%>"]


def text_docs():
    for n in (0, 1, 2, 3):
        for w in itertools.product(TEXT_BODY, repeat=n):
            body = "".join(w)
            if "</%text>" in body:
                continue
            yield body


def check_text_doc(body, st):
    from mako.template import Template

    st.states += 1
    st.traces += 1
    if body:
        st.nontrivial += 1
    for pre, post in (("", ""), ("p<", ">q\n")):
        src = pre + "<%text>" + body + "</%text>" + post
        st.evaluations += 1
        st.transitions += 1
        st.oracles["text-section-verbatim"] += 1
        try:
            got = ("ok", Template(src).render_unicode(x="X"))
        except BaseException as e:  # noqa
            got = ("exc", type(e).__name__ + ": " + str(e)[:100])
        want = ("ok", pre + body + post)
        st.outcomes[("text-section", got[0], "same" if got == want else "differs")] += 1
        if got != want:
            first = next((t for t in TEXT_BODY if body.startswith(t)), "")
            st.violation("text-section:%s" % ("body not verbatim" if got[0] == "ok" else "rejected"), {"kind": "textsec", "text": body},
                         "the body of <%text> is emitted verbatim (body starts with " + repr(first) + ")", expected=list(want), observed=list(got))
            break


# --------------------------------------------------------------------------
# documents given as BYTES (with and without a UTF-8 byte-order mark), whose first characters are encoded with the
# bytes of the mark itself (U+FEFF, U+FEFB, U+FFFB, U+FFFF) or begin with its first byte (U+F000, U+EFFF, fullwidth
# forms): the text of the document is what the same characters give as str - nothing is dropped with the mark

BYTES_LEAD = ["\ufeff", "\ufefb", "\ufffb", "\uffff", "\uf000", "\uefff", "\uff21", "\u00ef\u00bb\u00bf", "a", "\n", "${'x'}", "## c\n", "%% p\n", "<%text>\ufefb</%text>"]


def bytes_docs():
    for n in (1, 2, 3):
        for w in itertools.product(BYTES_LEAD, repeat=n):
            if n == 3 and not (w[0] in BYTES_LEAD[:8] and w[1] in BYTES_LEAD[:8]):
                continue
            yield "".join(w)


def check_bytes_doc(s, st, scratch):
    import codecs

    from mako.template import Template

    def run(f):
        try:
            return ("ok", f().render_unicode())
        except BaseException as e:  # noqa
            return ("exc", type(e).__name__)

    want = run(lambda: Template(s))
    fn = os.path.join(scratch, "b.html")
    routes = [("bom+bytes", lambda: Template(codecs.BOM_UTF8 + s.encode("utf-8")))]
    if not s.startswith("\ufeff"):
        routes.append(("bytes", lambda: Template(s.encode("utf-8"))))

    def from_file():
        with open(fn, "wb") as f:
            f.write(codecs.BOM_UTF8 + s.encode("utf-8"))
        return Template(filename=fn)

    routes.append(("bom+file", from_file))
    st.states += 1
    st.traces += 1
    if any(c in s for c in BYTES_LEAD[:8]):
        st.nontrivial += 1
    for name, f in routes:
        st.evaluations += 1
        st.transitions += 1
        st.oracles["bytes-as-str"] += 1
        got = run(f)
        st.outcomes[("bytes", name, got[0], "same" if got == want else "differs")] += 1
        if got != want:
            lead = "U+%04X" % ord(s[0])
            st.violation("bytes:%s:text after the byte-order mark %s" % (name.split("+")[0], "dropped or changed" if got[0] == "ok" else "rejected (" + got[1] + ")"),
                         {"kind": "bytes", "text": s, "route": name}, "a document given as bytes is the document its characters give as str (first character " + lead + ")", expected=list(want), observed=list(got))
            break


CMD_PIECES = ["a", "\r\n", "\r", "\n", "${'x'}", "## c\r\n", "<%text>\r\n\r</%text>", "%% p\r\n", "\\\r\n", "\u00e9"]


def cmd_docs():
    for n in (1, 2, 3):
        for w in itertools.product(CMD_PIECES, repeat=n):
            yield "".join(w)


def check_cmd_doc(s, st, scratch):
    """the mako-render command line given a template FILE (with and without a UTF-8 byte-order mark): what it writes is
    what the library renders for the same characters (CR, CR LF and the mark are where a text-mode read would differ)"""
    import codecs

    from mako import cmd as mcmd
    from mako.template import Template

    try:
        want = ("ok", Template(s).render_unicode())
    except BaseException as e:  # noqa
        want = ("exc", type(e).__name__)
    st.states += 1
    st.traces += 1
    if "\r" in s:
        st.nontrivial += 1
    for name, data in (("file", s.encode("utf-8")), ("bom+file", codecs.BOM_UTF8 + s.encode("utf-8"))):
        fn = os.path.join(scratch, "c.html")
        out = os.path.join(scratch, "c.out")
        with open(fn, "wb") as f:
            f.write(data)
        if os.path.exists(out):
            os.unlink(out)
        st.evaluations += 1
        st.transitions += 1
        st.oracles["cmd-file"] += 1
        err = sys.stderr
        try:
            sys.stderr = io.StringIO()
            try:
                mcmd.cmdline(["--output-encoding", "utf-8", "--output-file", out, fn])
                got = ("ok", open(out, "rb").read().decode("utf-8"))
            except SystemExit:
                got = ("exc", "exit")
            except BaseException as e:  # noqa
                got = ("exc", type(e).__name__)
        finally:
            sys.stderr = err
        same = got == want or (got[0] == "exc" and want[0] == "exc")
        st.outcomes[("cmd", name, got[0], "same" if same else "differs")] += 1
        if not same:
            st.violation("cmd:%s:mako-render writes other text than the library renders" % name, {"kind": "cmd", "text": s, "route": name},
                         "the command line given a template file renders the document its characters give as str", expected=list(want), observed=list(got))
            break


def plan(tier, seed):
    n = core.NPROC
    jobs = [{"kind": "words", "tier": tier, "seed": seed, "shard": i, "nshards": n} for i in range(n)]
    jobs += [{"kind": "units", "tier": tier, "seed": seed, "shard": i, "nshards": n} for i in range(n)]
    fams = list(families(tier))
    for i in range(n):
        jobs.append({"kind": "time", "tier": tier, "seed": seed, "fams": fams[i::n]})
    jobs.append({"kind": "bytes", "tier": tier, "seed": seed})
    jobs.append({"kind": "cmd", "tier": tier, "seed": seed})
    jobs += [{"kind": "textsec", "tier": tier, "seed": seed, "shard": i, "nshards": 4} for i in range(4)]
    return jobs


def run_job(job):
    st = Stats()
    t0 = time.time()
    try:
        return _run_job(job, st)
    finally:
        st.extra["cpu_s_" + job["kind"]] = round(time.time() - t0, 1)


def _run_job(job, st):
    b = BOUNDS[job["tier"]]
    seed = job["seed"]
    if job["kind"] == "words":
        full, core_ = alphabet(seed)
        seen = set()
        sh, ns = job["shard"], job["nshards"]
        for alpha, k in ((full, b["k_full"]), (core_, b["k_core"]), (magic_alphabet(seed), b["k_full"])):
            for n in range(0, k + 1):
                for w in itertools.product(alpha, repeat=n):
                    s = "".join(w)
                    if zlib.crc32(s.encode("utf-8", "surrogatepass")) % ns != sh:
                        continue
                    if s in seen:
                        continue
                    seen.add(s)
                    check_string(s, st, "word")
                    if _TIMEOUTS[0] >= 12:
                        break
                if _TIMEOUTS[0] >= 12:
                    break
            if _TIMEOUTS[0] >= 12:
                # the violation is established; what is left of this shard would only wait for more deadlines
                st.exhaustive = False
                st.caps.append("words: shard %d abandoned after 12 inputs on which lexing does not terminate" % sh)
                break
        st.extra["words"] = len(seen)
    elif job["kind"] == "units":
        sh, ns = job["shard"], job["nshards"]
        seen = set()
        for src in unit_docs(job["tier"], seed):
            if zlib.crc32(src.encode("utf-8")) % ns != sh or src in seen:
                continue
            seen.add(src)
            limit = 5 if _TIMEOUTS[0] < 3 else 1
            try:
                with _deadline(limit):
                    check_unit_doc(src, st)
            except _Timeout:
                _TIMEOUTS[0] += 1
                st.violation("time:short-input-does-not-terminate", {"kind": "units", "text": src}, "time: lexing / rendering a short document finishes", observed="still running after %d s" % limit)
                if _TIMEOUTS[0] >= 12:
                    st.exhaustive = False
                    st.caps.append("units: shard %d abandoned after 12 inputs on which lexing does not terminate" % sh)
                    break
        st.extra["unit_docs"] = len(seen)
    elif job["kind"] == "time":
        check_family_batch([tuple(f) for f in job["fams"]], b["rep_max"], st, limit=b["time_limit"])
    elif job["kind"] == "textsec":
        n = 0
        for i, body in enumerate(text_docs()):
            if i % job["nshards"] != job["shard"]:
                continue
            check_text_doc(body, st)
            n += 1
        st.extra["text_sections"] = n
    elif job["kind"] == "bytes":
        scratch = core.scratch_dir("c01b")
        n = 0
        for src in bytes_docs():
            check_bytes_doc(src, st, scratch)
            n += 1
        st.extra["bytes_docs"] = n
    elif job["kind"] == "cmd":
        scratch = core.scratch_dir("c01c")
        n = 0
        for src in cmd_docs():
            check_cmd_doc(src, st, scratch)
            n += 1
        st.extra["cmd_docs"] = n
    return st


OUT_ENCODINGS = ["utf-8", "utf-16", "utf-8-sig", "utf-32", "utf-16-le", "utf-7"]


def check_unit_doc(src, st):
    from mako.template import Template

    exp = ref_render(src, units=True)
    st.evaluations += 1
    st.states += 1
    st.transitions += 1
    st.traces += 1
    out, v, _ = check_lex(src, st)
    rout = "dontcare"
    if v is None and exp is not None:
        st.nontrivial += 1
        st.oracles["render_units"] += 1
        try:
            # the bytes route: the same text through render() under a rotating output encoding (BOM-writing and
            # stateful codecs included) must decode to the same characters
            enc = OUT_ENCODINGS[st.evaluations % len(OUT_ENCODINGS)]
            t = Template(src, output_encoding=enc)
            got = t.render_unicode()
            if got != exp:
                rout = "diff"
                v = ("render", "unit document renders differently from its documented text", {"expected": exp, "observed": got})
            else:
                rout = "ok"
                st.oracles["render_units_bytes"] += 1
                try:
                    exp.encode(enc)
                    representable = True
                except UnicodeError:
                    representable = False
                if representable:
                    gotb = t.render().decode(enc)
                    if gotb != exp:
                        rout = "diff-bytes"
                        v = ("render", "unit document renders differently through render() with output_encoding=%s" % enc, {"expected": exp, "observed": gotb})
        except _Timeout:
            raise
        except BaseException as e:  # noqa
            rout = "exc"
            v = ("render", "well-formed unit document does not render", {"expected": exp, "error": "%s: %s" % (type(e).__name__, str(e)[:200])})
    st.outcomes[("units", out, rout)] += 1
    if v is not None:
        oracle, msg, detail = v
        if oracle == "drop":
            sig = drop_signature(src, detail)
        elif oracle == "render":
            sig = "render:" + _render_sig(src, detail)
        else:
            sig = oracle + ":" + msg
        st.violation(sig, {"kind": "units", "text": src}, oracle + ": " + msg, expected=exp, observed=detail)
    if st.evaluations % 4999 == 1:
        st.sample({"kind": "units", "text": src, "expected": exp})


# --------------------------------------------------------------------------
# (c) time bound: repetition families, each size lexed in a child with a wall limit

REP_PREFIX = ["", "<%a", "${", "<%", "% if x:", "<%text>", '"', "<%def name=", '${"', "${'", '${"""', '<% "', "<% '", '<%def name="', "${x | "]  # the last seven: inside a string literal / filter list
REP_SUFFIX = ["", ">", "}", "%>", "\n"]
REP_TOKENS = ["<%", "%>", "</%", "${", "}", "%", "##", "\\", "\n", "\r\n", '"', "'", "|", ">", "/", "<", "#",
              "$", " ", "\t", "a", "=", ",", "x", " x", "(", "[", "{"]
REP_CORE = ["<%", "</%", "${", "}", "\\", "\n", '"', "'", " ", "a", "=", ",", "#", "%"]


def families(tier="quick"):
    ws = list(REP_TOKENS)
    pair = REP_CORE if tier == "quick" else REP_TOKENS
    for a, b_ in itertools.product(pair, repeat=2):
        ws.append(a + b_)
    ws = sorted(set(ws), key=lambda w: (len(w), w))
    for p in REP_PREFIX:
        for w in ws:
            for s in (["", ">", "\n"] if tier != "quick" else ["", ">"]):
                yield (p, w, s)


_CHILD = r"""
import sys, time, json, signal
sys.path.insert(0, %(repo)r)
sys.setrecursionlimit(10000)
from mako.lexer import Lexer
from mako import exceptions
fams = json.loads(sys.stdin.read())
LIMIT = %(limit)d
signal.signal(signal.SIGVTALRM, signal.SIG_DFL)   # a regex stuck in C cannot be interrupted from Python: die hard
# the limit is CPU time of this process (ITIMER_VIRTUAL), so that machine load does not fake a blow-up
for (p, w, s, sizes) in fams:
    res = []
    for n in sizes:
        text = p + w * n + s
        print("START " + json.dumps([p, w, s, n]), flush=True)
        t0 = time.process_time()
        signal.setitimer(signal.ITIMER_VIRTUAL, LIMIT)
        try:
            Lexer(text).parse(); o = "ok"
        except (exceptions.SyntaxException, exceptions.CompileException):
            o = "exc"
        except RecursionError:
            o = "recursion"
        except _Timeout:
            raise
        except BaseException as e:
            o = "other:" + type(e).__name__
        signal.setitimer(signal.ITIMER_VIRTUAL, 0)
        dt = time.process_time() - t0
        res.append((n, o, round(dt, 4)))
        if dt > 2.5:
            break
    print("DONE " + json.dumps([p, w, s, res]), flush=True)
"""


def check_family_batch(fams, rep_max, st, limit=20):
    import json

    sizes = []
    n = 8
    while n <= rep_max:
        sizes.append(n)
        n *= 2
    remaining = list(fams)
    timeouts = 0
    code = _CHILD % {"repo": os.path.abspath(core.REPO), "limit": limit}
    while remaining:
        payload = json.dumps([[p, w, s, sizes] for (p, w, s) in remaining])
        pr = subprocess.run([sys.executable, "-c", code], input=payload, capture_output=True, text=True)
        ndone = 0
        last_start = None
        for l in pr.stdout.splitlines():
            if l.startswith("START "):
                last_start = json.loads(l[6:])
            elif l.startswith("DONE "):
                p, w, s, res = json.loads(l[5:])
                ndone += 1
                _judge_family(p, w, s, res, st, limit)
        if ndone == len(remaining):
            break
        if pr.returncode == -signal.SIGVTALRM and last_start is not None:
            p, w, s = remaining[ndone]
            assert [p, w, s] == last_start[:3], (remaining[ndone], last_start)
            _judge_family(p, w, s, [(last_start[3], "timeout", float(limit))], st, limit)
            remaining = remaining[ndone + 1 :]
            timeouts += 1
            if timeouts >= 8:
                # every further blow-up costs `limit` seconds; the violation is already established
                st.exhaustive = False
                st.caps.append("time families: stopped after %d timeouts, %d families of this shard not run" % (timeouts, len(remaining)))
                break
        else:
            st.extra.setdefault("harness_errors", []).append("time child died: rc=%s err=%s" % (pr.returncode, pr.stderr[-500:]))
            break


def _judge_family(p, w, s, res, st, limit):
    st.evaluations += len(res)
    st.transitions += len(res)
    st.states += 1
    st.traces += 1
    st.nontrivial += 1
    st.oracles["time"] += 1
    worst = max(r[2] for r in res)
    outs = {r[1] for r in res}
    st.outcomes[("time", ",".join(sorted(outs)))] += 1
    bad = None
    if "timeout" in outs:
        bad = "lexing did not finish within %ds at n=%d" % (limit, res[-1][0])
    elif any(o.startswith("other") for o in outs):
        bad = "non-Mako exception: %s" % sorted(outs)
    else:
        big = [r for r in res if r[2] > 0.3]
        if len(big) >= 2 and big[-1][2] / big[-2][2] > 10:
            bad = "doubling ratio %.1f" % (big[-1][2] / big[-2][2])
    if bad:
        if re.match(r"<%\w+", p) and set(w) <= set(" \t\r\n=,") and set(w) & set("=,"):
            sig = "time:tagstart-attribute-separators"
        else:
            sig = "time:%r+%r*n" % (p, w)
        st.violation(sig, {"kind": "time", "family": [p, w, s], "limit": limit}, "time: " + bad, observed=res)
    if worst > 1.0:
        st.extra.setdefault("slow_families", []).append([p, w, s, res[-1]])


# --------------------------------------------------------------------------


def replay(case):
    st = Stats()
    if case["kind"] == "time":
        check_family_batch([tuple(case["family"])], 8192, st, limit=case.get("limit", 20))
    elif case["kind"] == "textsec":
        check_text_doc(case["text"], st)
    elif case["kind"] == "bytes":
        check_bytes_doc(case["text"], st, core.scratch_dir("c01b"))
    elif case["kind"] == "cmd":
        check_cmd_doc(case["text"], st, core.scratch_dir("c01c"))
    elif case["kind"] == "units":
        s = case["text"]
        check_unit_doc(s, st)
    else:
        check_string(case["text"], st, case["kind"])
    if st.violations:
        return False, "reproduced: %r" % (st.violations[0],)
    return True, "holds"

ENGINE = "E1"
TECHNIQUE = "bounded exhaustive enumeration of token words / unit documents / repetition families, each executed on the real Lexer and Template against a reference segmenter and a span-tiling oracle"
LEVEL_TEXT = (
    "Every string of <=k alphabet tokens (k=3 over 31 tokens, 4-5 over the 14-token core), every document of <=m well-formed units at every junction, "
    "and every repetition family of the stated shape is lexed and rendered by the real code; outcome class, span tiling (no stepped-over or re-matched "
    "character), reported positions and the documented rendering are checked on each. Complete within those bounds; no sampling."
)
LEVEL_NOTE = "Trusted: CPython re/str/exec, the 60-line reference segmenter (documented rules only, DONT_CARE elsewhere). The polynomial-time clause is measured (doubling) per enumerated family, not proven."
READY = True
