"""C02 - expression substitution applies the filter pipeline in the documented order.

Engine E1: exhaustive enumeration of
  (1) pipe  : value x expression filter list x default_filters x <%page expression_filter> x position,
  (2) tagf  : filter= lists on <%def> (plain / buffered), <%block> (anonymous / named), <%text> x buffer_filters
              x default_filters x page filter x filters of the calling expression  (D and P must not apply there),
  (3) bind  : where the user callables come from (context, <%! %>, imports=, a <% %> local) and decoy context
              variables named like the built-in flags,
  (3b) nest : an expression whose value, while being computed, runs another filtered expression (plain / buffered
              def, capture(def), a context callable rendering a second Template) x every ordered (outer, inner) pair of
              {decode.utf8, decode.latin1, decode.ascii, h, x, f1}; two filters of that set in one list on one value,
  (3c) vals : every filter where it receives the value itself x a sequence of values that are equal / hash alike but
              read differently (True/1/1.0, False/0/0.0, Decimal, objects), a value whose text changes, an unhashable
              value - one after the other in one process, both orders (a failure is minimised to its prelude),
  (3d) shared: histories on one TemplateLookup / one list object given to several Template() calls: every ordered pair
              of templates (page filter absent / list / list with n); each must render as it does on its own and the
              caller's default_filters / buffer_filters / imports lists must be unchanged,
  (3e) fpart: spellings of the filter list itself (comments, trailing comma, several lines, blanks in attributes) and a
              page filter named by a context callable: the documented composition or a loud refusal, nothing else,
  (3f) strict: strict_undefined=True with a context of data names only: every flag name in every filter position
              (expression, page, filter= of def/block/text, buffer_filters, default_filters), via Template and TemplateLookup,
  (4) spell : every spelling of the expression text from a bounded grammar (specials only inside brackets or
              string literals) x spellings of the filter part,
each printed from a small IR (mc/c02_ref.py), compiled and rendered by the real Template, and compared with the
reference interpreter of the same IR (documented composition; built-ins re-implemented from the standard
library; Python leaves evaluated by eval).  For (4) the Expression node of the real Lexer is checked as well.
"""

import itertools
import json
import time
import zlib

from mc import core
from mc.core import Stats
from mc import c02_env, c02_ref, c02_sig, c02_spell

PROPERTY = "C02"
LEVEL = "model_checking"
ENGINE = "E1"
TECHNIQUE = (
    "bounded exhaustive enumeration of IR programs (filter lists x filter sources x positions x spellings), each "
    "compiled and rendered by the real Template and compared with a reference interpreter of the IR"
)
LEVEL_TEXT = (
    "Every expression filter list of <=k items (k=2 quick, 3 thorough; k+1 for lists with n or two user filters) over a "
    "13-item alphabet (5 escapes, str/unicode, n, decode.utf8, 4 user callables incl. a filter call and an attribute) "
    "under the combinations of 6 default_filters settings, 6 page filter settings and 5 positions stated in the bounds, "
    "for 5 values (two strings, int, bytes, Markup); every filter= list on def/block/text with 3 buffer_filters "
    "settings; every spelling of the expression from a bounded grammar (string literals over a 12-symbol content "
    "alphabet in all quote styles, 40 bracket/comment/newline wrappers nested to depth 2-3) with the filter part in "
    "every spacing. All are run on the real code; complete within those bounds, no sampling."
)
LEVEL_NOTE = (
    "Trusted: CPython eval/str, markupsafe.escape, html.entities, urllib.parse, the ~150-line reference interpreter "
    "(mc/c02_ref.py). DONT_CARE where the documentation leaves the answer open (see ASSUMPTIONS)."
)
RULE = (
    "pipe/tagf/bind: one case = (program printed from the IR, Template arguments, context value); programs are the full "
    "product of the stated dimensions, distinct by construction (checked by hashing). spell: one case = (expression "
    "text, filter part), de-duplicated on the text. Non-trivial = the effective pipeline (D + P + local, after `n`) has "
    ">= 2 distinct stages other than str/unicode, or an `n` occurs (nest: always - two pipelines are in flight); for spell: the expression holds | } { # or a quote "
    "inside a bracket or string literal."
)
ASSUMPTIONS = [
    "x, u, trim, entity applied to a non-string (the documentation speaks of strings): the filter may refuse the value (any exception) or work on str(value) (trim also: the value's own strip()); every combination of these readings is computed and the template must match one of them. DONT_CARE: x applied to text with quote characters (entity spelling not fixed); a non-string reaching the output buffer; h applied to the result of x/entity/decode of a Markup value (Markup-ness of that result not documented)",
    "names in default_filters, buffer_filters and <%page expression_filter> are supplied at module level (imports= or <%! %>), as the documentation requires; expression-level and filter= names come from the context, <%! %>, imports= or a <% %> local",
    "a top-level | outside brackets is by documentation the filter separator: the spelling grammar places | only inside brackets or string literals; newlines occur only inside brackets or triple-quoted literals; filter lists are written on one line except inside a call's parentheses",
    "filter arguments are literals (the source generator that re-emits filter arguments is property C19's subject)",
    "what <%call expr=...> does with the callee's return value is not fixed by the statement: both 'written as it is' and 'treated as ${expr} with an empty local filter list' are accepted",
    "a user filter or decode.<enc> that raises must make render() raise (any exception class); nothing else is demanded there",
    "nested pipelines: the reference composition is unchanged - each expression uses its own filter list whatever else is evaluated meanwhile; capture(f) is the documented built-in (fresh buffer, returns the content); concurrent renders in other threads are not enumerated here",
    "filter-list spellings the documentation never shows (comment, trailing comma, several lines, blanks inside filter= attributes) and a <%page> filter named by a context callable: accepted with the documented meaning or refused loudly (SyntaxException/CompileException, resp. NameError) - anything else is a violation",
    "order dependence: a failure seen in a long-lived worker is re-run in a fresh interpreter alone and after each of the 24 preceding cases (core.find_prelude); the shared-list histories carry their own history",
    "`n` inside default_filters / buffer_filters is not documented and is not enumerated",
    "tagging user filters convert their argument with str() so that Markup.__add__ escaping never enters the comparison",
    "CPython eval/exec, str, markupsafe, html.entities, urllib.parse are trusted",
]
BOUNDS = {
    "quick": {
        "pipe": "lists of <=2 of 13 filters x 6 default_filters x 5 page settings (6 for <=1 filter) x positions {body, def} (all 5 for <=1 filter) x 5 values; "
        "3-filter lists containing n or >=2 user filters x 3 default_filters x 3 page settings x body x 2 values",
        "tagf": "bodies at the boundary (nothing between the tags, one blank, an empty <%text> section) x filter= lists of <=1 x 6 constructs; filter= lists of <=2 x {def, buffered def called plain and with |n, anonymous block, named block, text} x buffer_filters 3 (defs) / 1 x 3 (D,P) settings x 2 values; "
        "buffered def without filter= x 3 calling filters x 3 buffer_filters x 6 D x 6 P x 5 values",
        "nest": "36 ordered (outer, inner) filter pairs of {decode.utf8, decode.latin1, decode.ascii, h, x, f1} x inner pipeline run in {def, buffered def, capture(def), second template with local filter, second template with default_filters} x outer filter given {locally after n, as default_filters}; "
        "36 pairs in one list x {n + list, default_filters=[] + list, default_filters=[first] + [second]} x 4 values (utf-8 / latin-1 / ascii bytes, str)",
        "strict": "strict_undefined=True, context = data names only, user callables from imports=; 11 names (n, h, x, u, trim, entity, unicode, str, decode.utf8, decode.latin1, f1): lists of <=1 x 3 D x 4 P x 5 positions; lists of 2 x {body, def} x 2 P; "
        "page lists [f], [n, f], [f, f4] x 3 local lists x 5 positions; filter= lists of <=2 x {def, buffered def, blocks, text} x 2 (B, D, P); buffer_filters and default_filters [f], [f, g], [g, f]; all x {Template, TemplateLookup} x 2 values",
        "vals": "9 filters x {n+f, n+f+f1, default_filters=[f], default_filters=[f]+f2} x {body, def} x 14 values in sequence (True, 1, 1.0, False, 0, 0.0, Decimal 1 / 1.0, two equal objects, one object with two texts, a list, a str), forward and reversed",
        "fpart": "15 spellings of the filter part x 2 default_filters x {body, def} x 2 values; 9 attribute spellings x {def, buffered def, 2 blocks, text, page}; 4 page lists naming context callables x 5 positions x 3 local lists",
        "recompile": "one template file compiled twice in one process under different default_filters / buffer_filters: 4 templates x 30 ordered pairs of 6 option sets x routes {TemplateLookup(directories), Template(filename), lookup with a module directory per configuration}",
        "shared": "15 templates (3 bodies x 5 page settings): all 225 ordered pairs x 2 default_filters lists x {one list object given to Template() twice, one TemplateLookup}; every template re-rendered after each compile; 3 input lists compared afterwards",
        "bind": "lists of <=2 with a user filter x binding {<%! %>, imports=, <% %> local} x D/P/B names from {imports=, <%! %>} x 5 positions x 2 (D,P); decoy context names x lists <=2; raising stages",
        "spell": "string atoms (content 1 of 12 symbols x 4 filter parts, content 2 x 2; 4 quote styles, r/f prefixes); 26 core atoms x 40 wrappers x 2; 2 atoms x 40^2 wrappers x 2; "
        "90 spacings of the filter part x 22 expressions; 15 filter-argument spellings x 5; 8 x 6 junctions x 4 x 2; inner spaces; 8 f-string forms",
    },
    "thorough": {
        "pipe": "lists of <=2 x 6 default_filters x 6 page settings x 5 positions x 5 values; 3-filter lists x 6 default_filters x 5 page settings x positions {body, def, call} x 5 values; "
        "4-filter lists containing n or >=2 user filters x 3 default_filters x 3 page settings x body x 2 values",
        "tagf": "boundary bodies as quick with lists of <=2; filter= lists of <=3 x 7 constructs (quick's + def called with |n) x buffer_filters 3/1 x 6 (D,P) settings x 2 values; buffered def without filter= as quick",
        "bind": "as quick",
        "nest": "as quick",
        "vals": "as quick",
        "strict": "as quick",
        "fpart": "as quick",
        "shared": "as quick with 4 default_filters lists",
        "recompile": "as quick",
        "spell": "quick with 4 filter parts for atoms and depth 1, depth 2 over 4 atoms x 40^2 x 2; + atoms with content 3 x 2; 26 core atoms x 40^2 wrappers; 2 atoms x 40^3 wrappers",
    },
}

# --------------------------------------------------------------------------
# data alphabet (seed picks interchangeable values only)

POOL_A = ["<a&b>", "<q&r>", "a<&>z", "&<é>"]
POOL_B = [" xé ", "\tyß ", " 中 ", "  zж\n"]
POOL_I = [7, 0, -3, 42]
POOL_G = ["·", "é", "ж", "中"]


def alphabet(seed):
    i = seed % 4
    g = 'g("%s")' % POOL_G[i]
    filters = ["h", "x", "u", "trim", "entity", "str", "unicode", "n", "decode.utf8", "f1", "f2", g, "ns.f1"]
    values = [POOL_A[i], POOL_B[i], POOL_I[i], "@helper:VB%d" % i, "@helper:VM%d" % i]
    return filters, values


USER = lambda f: f in ("f1", "f2", "ns.f1") or f.startswith("g(")  # noqa

D_ALL = [None, [], ["str"], ["f3"], ["f3", "h"], ["decode.utf8"]]
P_ALL = [None, ["f4"], ["f4", "x"], ["n"], ["n", "f4"], ["f4", "n"]]
POSITIONS = ["body", "def", "block", "nblock", "call"]
B_ALL = [[], ["f5"], ["f5", "trim"]]
D_SUB = [None, [], ["f3", "h"]]
P_SUB = [None, ["f4", "x"], ["n", "f4"]]


def lists_upto(filters, k):
    for n in range(0, k + 1):
        for w in itertools.product(filters, repeat=n):
            yield list(w)


def special(L):
    """lists where order / n matters most: contain n or >= 2 user filters"""
    return "n" in L or sum(1 for f in L if USER(f)) >= 2


# --------------------------------------------------------------------------
# program builders


def place(e, pos):
    if pos == "body":
        return [["text", "["], e, ["text", "]"]]
    if pos == "def":
        return [
            ["def", "d", {"filter": None, "buffered": False}, [["text", "("], e, ["text", ")"]]],
            ["text", "["],
            ["expr", "d()", [], None],
            ["text", "]"],
        ]
    if pos == "block":
        return [["text", "["], ["block", None, None, [e]], ["text", "]"]]
    if pos == "nblock":
        return [["text", "["], ["block", "b", None, [e]], ["text", "]"]]
    if pos == "call":
        return [
            ["def", "w", {"filter": None, "buffered": False}, [["text", "("], ["expr", "caller.body()", [], None], ["text", ")"]]],
            ["text", "["],
            ["call", "w", [e]],
            ["text", "]"],
        ]
    raise AssertionError(pos)


def pipe_prog(L, D, P, pos, bind="ctx", pbind="imports", decoy=False):
    return {
        "D": D,
        "P": P,
        "B": [],
        "bind": bind,
        "pbind": pbind,
        "decoy": decoy,
        "body": place(["expr", "v", list(L), None], pos),
        "fam": "pipe",
        "pos": pos,
    }


TAG_CONSTRUCTS = [
    ("def-f", []),
    ("def-f", ["n"]),
    ("def-bf", []),
    ("def-bf", ["n"]),
    ("block-f", None),
    ("nblock-f", None),
    ("text-f", None),
]


def tagf_prog(L, cons, ce, B, D, P, inner=None):
    if inner is None:
        inner = [["text", " <t> "], ["expr", "v", [], None]]
    if cons == "def-f":
        body = [["def", "d", {"filter": list(L), "buffered": False}, inner], ["text", "["], ["expr", "d()", ce, None], ["text", "]"]]
    elif cons == "def-bf":
        body = [["def", "d", {"filter": list(L), "buffered": True}, inner], ["text", "["], ["expr", "d()", ce, None], ["text", "]"]]
    elif cons == "block-f":
        body = [["text", "["], ["block", None, list(L), inner], ["text", "]"]]
    elif cons == "nblock-f":
        body = [["text", "["], ["block", "b", list(L), inner], ["text", "]"]]
    elif cons == "text-f":
        body = [["text", "["], ["texttag", " <t>&${v} é ", list(L)], ["text", "]"]]
    else:
        raise AssertionError(cons)
    return {"D": D, "P": P, "B": B, "bind": "ctx", "pbind": "imports", "decoy": False, "body": body, "fam": "tagf", "pos": cons}


def gen_pipe(tier, seed):
    """yield (prog, value indexes)"""
    F, _ = alphabet(seed)
    quick = tier == "quick"
    full_k, sub_k = (2, 3) if quick else (3, 4)
    for L in lists_upto(F, full_k):
        longest = len(L) == full_k
        # lists of the largest length: fewer positions, and without the page setting whose n comes last
        if quick:
            poss = ["body", "def"] if longest else POSITIONS
        else:
            poss = ["body", "def", "call"] if longest else POSITIONS
        Ps = P_ALL[:5] if longest else P_ALL
        for D in D_ALL:
            for P in Ps:
                for pos in poss:
                    yield pipe_prog(L, D, P, pos), (0, 1, 2, 3, 4)
    for L in itertools.product(F, repeat=sub_k):
        L = list(L)
        if not special(L):
            continue
        for D in D_SUB:
            for P in P_SUB:
                yield pipe_prog(L, D, P, "body"), (0, 2)


def gen_tagf(tier, seed):
    F, _ = alphabet(seed)
    k = 2 if tier == "quick" else 3
    if tier == "quick":
        DPs = [(None, None), (["f3", "h"], None), (["f3", "h"], ["n", "f4"])]
    else:
        DPs = [(D, P) for D in (None, ["f3"], ["f3", "h"]) for P in (None, ["n", "f4"])]
    for L in lists_upto(F, k):
        for cons, ce in TAG_CONSTRUCTS:
            if tier == "quick" and (cons, ce) == ("def-f", ["n"]):
                continue
            Bs = B_ALL if cons.startswith("def") else [B_ALL[2]]
            for B in Bs:
                for D, P in DPs:
                    yield tagf_prog(L, cons, ce, B, D, P), (0, 1)
    # bodies at the boundary: nothing at all between the tags, a single blank, an empty <%text> section - the filter= list is
    # applied to "" / " " all the same (a tagging filter shows it)
    for inner, iname in (([], "empty"), ([["text", " "]], "blank"), ([["texttag", "", None]], "empty-text-section")):
        for L in lists_upto(F, 1 if tier == "quick" else 2):
            for cons, ce in TAG_CONSTRUCTS:
                if cons == "text-f":
                    continue
                for B in (B_ALL if cons.startswith("def") else [B_ALL[2]]):
                    for D, P in DPs[:2]:
                        p_ = tagf_prog(L, cons, ce, B, D, P, inner=[list(x) for x in inner])
                        p_["pos"] = cons + ":" + iname
                        yield p_, (0,)
    # a def that is also cached="True": on the first render of a fresh template the cache is empty and the def means what
    # it means uncached - its own filter= list and the buffer_filters apply exactly once (one value per template object)
    for L in lists_upto(F, 1 if tier == "quick" else 2):
        for cons in ("def-f", "def-bf"):
            for B in B_ALL:
                for D, P in DPs[:2]:
                    p_ = tagf_prog(L, cons, [], B, D, P)
                    p_["body"][0][2]["cached"] = True
                    p_["pos"] = cons + ":cached"
                    yield p_, (0,)
    # buffered def without a filter= attribute: only buffer_filters apply
    for ce in ([], ["n"], ["f2"]):
        for B in B_ALL:
            for D in D_ALL:
                for P in P_ALL:
                    body = [
                        ["def", "d", {"filter": None, "buffered": True}, [["text", " <t> "], ["expr", "v", [], None]]],
                        ["text", "["],
                        ["expr", "d()", ce, None],
                        ["text", "]"],
                    ]
                    yield {"D": D, "P": P, "B": B, "bind": "ctx", "pbind": "imports", "decoy": False, "body": body, "fam": "tagf", "pos": "def-b"}, (0, 1, 2, 3, 4)


def gen_bind(tier, seed):
    F, _ = alphabet(seed)
    k = 2
    DP = [(None, None), (["f3"], ["f4"])]
    for L in lists_upto(F, k):
        if any(USER(f) for f in L):
            for bind in ("module", "imports", "local"):
                for pbind in ("imports", "module"):
                    for pos in POSITIONS if bind != "local" else ["body"]:
                        for D, P in DP:
                            p = pipe_prog(L, D, P, pos, bind=bind, pbind=pbind)
                            p["fam"] = "bind"
                            yield p, (0, 2)
    for L in lists_upto(F, 2):
        for pos in ("body", "def"):
            for D, P in [(None, None), (["f3", "h"], ["f4", "x"])]:
                p = pipe_prog(L, D, P, pos, decoy=True)
                p["fam"] = "decoy"
                yield p, (0, 1)
    # a stage of the documented composition raises: the render must raise too
    for L in (["boom"], ["f1", "boom"], ["boom", "f1"], ["n", "boom"], ["decode.ascii"], ["n", "decode.ascii", "f1"], ["n", "f1", "decode.ascii"]):
        for pos in POSITIONS:
            for D, P in DP:
                for bind in ("ctx", "module"):
                    p = pipe_prog(L, D, P, pos, bind=bind)
                    p["fam"] = "bind"
                    yield p, (0, 3)
    for L in (["boom"], ["f1", "boom"], ["decode.ascii"]):
        for cons, ce in TAG_CONSTRUCTS:
            p = tagf_prog(L, cons, ce, ["f5"], None, None)
            p["fam"] = "bind"
            yield p, (0,)
    # filter= attributes naming module-level / imported callables
    for L in lists_upto(F, 1):
        if any(USER(f) for f in L):
            for bind in ("module", "imports"):
                for cons, ce in TAG_CONSTRUCTS:
                    p = tagf_prog(L, cons, ce, ["f5"], ["f3"], ["f4"])
                    p["bind"] = bind
                    p["fam"] = "bind"
                    yield p, (0,)


NEST_FILTERS = ["decode.utf8", "decode.latin1", "decode.ascii", "h", "x", "f1"]
NEST_RUNNERS = ["def", "bdef", "capture", "tmpl-L", "tmpl-D"]


def nest_value(f, seed):
    """a value on which the filter is in its documented domain and, for decode.*, whose text depends on the encoding"""
    i = seed % 4
    return {"decode.utf8": "@helper:NU%d" % i, "decode.latin1": "@helper:NL%d" % i, "decode.ascii": "@helper:NA%d" % i}.get(f, POOL_A[i])


def nest_prog(fo, fi, runner, omode, seed):
    """outer expression ${box.put(<runs the inner pipeline>, v) | fo}: while its value is computed another
    expression, filtered with fi, is evaluated (in a def, through capture(), or in a second template)"""
    inner = ["expr", "w", ["n", fi], None]
    sub = None
    body = []
    if runner == "def":
        body.append(["def", "d", {"filter": None, "buffered": False}, [["text", "<"], inner, ["text", ">"]]])
        run = "d()"
    elif runner == "bdef":
        body.append(["def", "d", {"filter": None, "buffered": True}, [["text", "<"], inner, ["text", ">"]]])
        run = "d()"
    elif runner == "capture":
        body.append(["def", "d", {"filter": None, "buffered": False}, [["text", "<"], inner, ["text", ">"]]])
        run = "capture(d)"
    else:
        run = "sub()"
        if runner == "tmpl-L":
            sub = {"D": None, "P": None, "B": [], "bind": "imports", "pbind": "imports", "decoy": False, "body": [["text", "<"], inner, ["text", ">"]]}
        else:
            sub = {"D": [fi], "P": None, "B": [], "bind": "imports", "pbind": "imports", "decoy": False, "body": [["text", "<"], ["expr", "w", [], None], ["text", ">"]]}
        sub["vals"] = {"w": nest_value(fi, seed)}
        sub["fam"] = "nest-sub"
    src = "box.put(%s, v)" % run
    outer = ["expr", src, ["n", fo], None] if omode == "L" else ["expr", src, [], None]
    body += [["text", "["], outer, ["text", "|"], ["expr", "box.pop()", ["n"], None], ["text", "]"]]
    return {
        "D": [fo] if omode == "D" else None,
        "P": None,
        "B": [],
        "bind": "imports",
        "pbind": "imports",
        "decoy": False,
        "body": body,
        "fam": "nest",
        "pos": runner + "/" + omode,
        "vals": {"v": nest_value(fo, seed), "w": nest_value(fi, seed)},
        "sub": sub,
        "nest": [fo, fi],
    }


def gen_nest(tier, seed):
    """every ordered (outer, inner) pair of filters x how the inner pipeline is run x how the outer filter is given;
    then two filters of the set in one list on one value"""
    for fo in NEST_FILTERS:
        for fi in NEST_FILTERS:
            for runner in NEST_RUNNERS:
                for omode in ("L", "D"):
                    yield nest_prog(fo, fi, runner, omode, seed), (None,)
    i = seed % 4
    vals = ["@helper:NU%d" % i, "@helper:NL%d" % i, "@helper:NA%d" % i, POOL_A[i]]
    for fa in NEST_FILTERS:
        for fb in NEST_FILTERS:
            for L, D in ((["n", fa, fb], None), ([fa, fb], []), ([fb], [fa])):
                p = pipe_prog(L, D, None, "body", bind="imports")
                p["fam"] = "multi"
                yield p, vals


STRICT_FLAGS = ["n", "h", "x", "u", "trim", "entity", "unicode", "str", "decode.utf8", "decode.latin1", "f1"]


def gen_strict(tier, seed):
    """strict_undefined=True and a context holding only the data names (user callables come from imports=): every
    flag name in every filter position - expression list, page expression_filter, filter= of def / block / text,
    buffer_filters, default_filters - through Template and through TemplateLookup.  A flag name is never a
    variable of the template, so no render may fail for want of one"""
    F = STRICT_FLAGS
    progs = []
    for L in lists_upto(F, 1):
        for pos in POSITIONS:
            for D in D_SUB:
                for P in (None, ["f4"], ["n", "f4"], ["h"]):
                    progs.append(pipe_prog(L, D, P, pos, bind="imports"))
    for L in itertools.product(F, repeat=2):
        for pos in ("body", "def"):
            for P in (None, ["n", "f4"]):
                progs.append(pipe_prog(list(L), None, P, pos, bind="imports"))
    for f in F:  # page position
        for P in ([f], ["n", f], [f, "f4"]):
            if P.count("n") > 1:
                continue
            for L in ([], ["n"], ["f1"]):
                for pos in POSITIONS:
                    progs.append(pipe_prog(L, None, P, pos, bind="imports"))
    for L in lists_upto(F, 2):  # filter= position
        for cons, ce in TAG_CONSTRUCTS:
            if ce or (len(L) == 2 and cons in ("nblock-f",)):
                continue
            for B, D, P in (([], None, None), (["f5", "trim"], ["f3", "h"], ["n", "f4"])):
                p = tagf_prog(L, cons, ce, B, D, P)
                p["bind"] = "imports"
                progs.append(p)
    for f in F:  # buffer_filters / default_filters positions (n there is not documented: left out)
        if f == "n":
            continue
        for B in ([f], [f, "f5"], ["f5", f]):
            for L in ([], ["f1"]):
                p = tagf_prog(L, "def-bf", [], B, None, None)
                p["bind"] = "imports"
                progs.append(p)
        for D in ([f], [f, "f3"], ["f3", f]):
            for L in ([], ["n"], ["f1"]):
                for pos in ("body", "def", "call"):
                    progs.append(pipe_prog(L, D, ["f4"] if L else None, pos, bind="imports"))
    for p in progs:
        for via in ("template", "lookup"):
            q = dict(p, fam="strict", strict=True)
            if via == "lookup":
                q["via"] = "lookup"
            yield q, (0, 3)


VAL_FILTERS = ["h", "x", "u", "trim", "entity", "str", "unicode", "decode.utf8", "f1"]
VAL_SEQ = [True, 1, 1.0, False, 0, 0.0, "@helper:DEC1", "@helper:DEC10", "@helper:EQA", "@helper:EQB", "@helper:MUT=m-1<&", "@helper:MUT=m-2<&", [1, "é<"], "1"]


def gen_vals(tier, seed, reverse=False):
    """every filter in a place where it receives the value itself (after n, or first in default_filters) x a sequence
    of values that are equal / hash alike but read differently, a value whose text changes, an unhashable value -
    rendered one after the other by the same template in the same process, in both orders"""
    seq = list(reversed(VAL_SEQ)) if reverse else list(VAL_SEQ)
    for f in VAL_FILTERS:
        for L, D in ((["n", f], None), (["n", f, "f1"], None), ([], [f]), (["f2"], [f])):
            for pos in ("body", "def"):
                p = pipe_prog(L, D, None, pos, bind="imports")
                p["fam"] = "vals"
                yield p, seq


FPART = [
    # (class, text after the expression, the filters it denotes)
    ("comment after the last filter", " | h # c\n", ["h"]),
    ("comment after the last filter", " | f1, h # c }\n", ["f1", "h"]),
    ("comment between filters", " | h, # c\n trim", ["h", "trim"]),
    ("comment between filters", " | h, # c\ntrim", ["h", "trim"]),
    ("comment before the first filter", " | # c\n h", ["h"]),
    ("trailing comma", " | h,", ["h"]),
    ("trailing comma", " | h, ", ["h"]),
    ("trailing comma", " | f1, h ,", ["f1", "h"]),
    ("list on several lines", " | h,\n trim", ["h", "trim"]),
    ("list on several lines", " | h,\ntrim", ["h", "trim"]),
    ("list on several lines", " | f1\n , h", ["f1", "h"]),
    ("list on several lines", " | f1,\n   g('}'),\n   h", ["f1", "g('}')", "h"]),
    ("line break around the list", " |\n h", ["h"]),
    ("line break around the list", " | h\n", ["h"]),
    ("line break around the list", " |\n f1, h\n", ["f1", "h"]),
]
FATTR = [
    ("blank before the list", " trim", ["trim"]),
    ("blank before the list", " f1, trim", ["f1", "trim"]),
    ("blank after the list", "trim ", ["trim"]),
    ("blank around the list", " f1, trim ", ["f1", "trim"]),
    ("trailing comma", "trim,", ["trim"]),
    ("trailing comma", "f1, trim, ", ["f1", "trim"]),
    ("list on several lines", "f1,\n trim", ["f1", "trim"]),
    ("line break around the list", "\n f1, trim\n", ["f1", "trim"]),
    ("comment after the last filter", "trim # c\n", ["trim"]),
]
REJECT = ["SyntaxException", "CompileException"]


def gen_fpart(tier, seed):
    """spellings of the filter list itself (in ${ | } and in filter= / expression_filter attributes) that the
    documentation never shows: the documented composition or a loud compile-time refusal, never anything else;
    and a page filter named by a context callable: the composition or a NameError"""
    for cls, suffix, filters in FPART:
        for D in (None, ["f3"]):
            for pos in ("body", "def"):
                p = pipe_prog(filters, D, None, pos)
                for nd in c02_sig.walk(p["body"]):
                    if nd[0] == "expr" and nd[1] == "v":
                        nd[3] = "v" + suffix
                p.update(fam="fpart", may_reject=REJECT, fclass=cls)
                yield p, (0, 1)
    for cls, raw, filters in FATTR:
        for cons, ce in TAG_CONSTRUCTS:
            if ce:
                continue
            p = tagf_prog(filters, cons, ce, [], None, None)
            p.update(fam="fpart", may_reject=REJECT, fclass=cls + " (attribute)", attr_raw=raw)
            yield p, (0, 1)
        p = pipe_prog([], None, [f if f != "f1" else "f4" for f in filters], "body")
        p.update(fam="fpart", may_reject=REJECT, fclass=cls + " (attribute)", attr_raw=raw.replace("f1", "f4"), attr_raw_page=True)
        yield p, (0, 1)
    for P in (["f1"], ["ns.f1"], ["n", "f1"], ["f1", "h"]):
        for pos in POSITIONS:
            for L in ([], ["f2"], ["n"]):
                p = pipe_prog(L, None, P, pos)
                p.update(fam="fpart", may_reject=["NameError"], fclass="page filter named by a context callable")
                yield p, (0, 2)


def shared_cases(tier, seed):
    """histories on one long-lived TemplateLookup / on one list object given to several Template() calls:
    every ordered pair of templates from a small set, each compared with the same template on its own; the
    caller's lists must be unchanged afterwards"""
    _, values = alphabet(seed)
    progs = []
    for P in (None, ["f4"], ["n"], ["n", "f4"], ["f4", "n"]):
        progs.append(pipe_prog([], None, P, "body"))
        progs.append(pipe_prog(["f1"], None, P, "def"))
        progs.append(tagf_prog(["f1"], "def-bf", [], None, None, P))
    Ds = [["h"], ["f3", "h"]] if tier == "quick" else [["h"], ["f3", "h"], ["decode.utf8"], ["str", "f3"]]
    for D in Ds:
        for mode in ("list", "lookup"):
            for a in progs:
                for b in progs:
                    yield {"kind": "shared", "mode": mode, "D": D, "B": ["f5"], "progs": [a, b], "v": values[0]}


def check_shared(case, st):
    from mako.lookup import TemplateLookup
    from mako.template import Template

    D, B = case["D"], case["B"]
    imports = ["from mc.c02_env import " + c02_ref.MOD_NAMES]
    dl, bl, il = list(D), list(B), list(imports)
    lk = TemplateLookup(default_filters=dl, buffer_filters=bl, imports=il) if case["mode"] == "lookup" else None
    tmpls = []
    bad = []
    for i, p0 in enumerate(case["progs"]):
        prog = dict(p0, D=list(D), B=list(B), fam="shared")
        text, _ = c02_ref.print_program(prog)
        ctxj = c02_ref.context_for(prog, case["v"])
        ctx = c02_env.resolve(ctxj)
        exp = c02_ref.reference(prog, ctx)
        try:
            if lk is not None:
                lk.put_string("/t%d" % i, text)
                t = lk.get_template("/t%d" % i)
            else:
                t = Template(text, default_filters=dl, buffer_filters=bl, imports=il)
        except BaseException as e:  # noqa
            t = ("exc", type(e).__name__, str(e)[:200], "compile")
        tmpls.append((prog, t, ctx, exp))
        # render every template built so far: an earlier one must not change either
        for j, (pj, tj, cj, ej) in enumerate(tmpls):
            if isinstance(tj, tuple):
                obs = tj
            else:
                try:
                    obs = ("ok", tj.render_unicode(**cj))
                except BaseException as e:  # noqa
                    obs = ("exc", type(e).__name__, str(e)[:200], "render")
            st.evaluations += 1
            st.transitions += ej[2]
            st.oracles["shared_render_equals_reference"] += 1
            st.outcomes[("shared", ej[0], obs[0] if obs[0] == "ok" else "exc:" + obs[1])] += 1
            ok = True
            if ej[0] == "ok":
                ok = (obs[0] == "ok" and (obs[1] == ej[1] or obs[1] in ej[3])) or (obs[0] != "ok" and c02_ref.RAISES in ej[3])
            elif ej[0] == "error":
                ok = obs[0] != "ok"
            if not ok:
                first = tmpls[0][0]
                where = "alone" if (i == 0 and j == 0) else ("template %d after compiling %d" % (j + 1, i + 1))
                how = "diff" if obs[0] == "ok" else "exc:" + obs[1]
                sig = "shared:%s:%s" % (how, "+".join(sorted(c02_sig.features(pj))))
                if not (i == 0 and j == 0):
                    sig += ":after a template whose page filter is %s" % c02_sig.pclass(first if j > 0 or i > 0 else pj)
                bad.append((sig, "render: %s (%s)" % ("output differs from the same template on its own", where), [ej[1]], list(obs)))
        st.oracles["inputs_not_mutated"] += 1
        for name, cur, orig in (("default_filters", dl, D), ("buffer_filters", bl, B), ("imports", il, imports)):
            if cur != list(orig):
                bad.append(("shared:the caller's %s list is changed by compiling a template" % name, "inputs: a list given to Template/TemplateLookup is modified", list(orig), list(cur)))
    st.states += 1
    st.traces += 1
    st.nontrivial += 1
    seen = set()
    for sig, oracle, e, o in bad:
        if sig in seen:
            continue
        seen.add(sig)
        report(st, sig, case, oracle, e, o)


def recompile_cases(tier, seed):
    """one template FILE compiled several times in one process by lookups / Templates that differ only in their
    default_filters / buffer_filters: every ordered pair of option sets, each compile compared with the reference
    for its own options (whatever the process remembers from the earlier compile of the same file must not matter)"""
    _, values = alphabet(seed)
    progs = [
        pipe_prog(["f1"], None, None, "def"),
        tagf_prog(["f1"], "def-bf", [], None, None, None),
        tagf_prog([], "def-bf", [], None, None, ["f4"]),
        pipe_prog([], None, ["n", "f4"], "body"),
    ]
    opts = [(["h"], ["f5"]), (["h"], ["f5", "trim"]), (["h"], []), (["f3", "h"], ["f5"]), (["str"], ["trim", "f5"]), (["decode.utf8"], ["f5"])]
    for route in ("lookup-dir", "template-filename", "lookup-dir+modules"):
        for pi, p in enumerate(progs):
            for a in opts:
                for b in opts:
                    if a != b:
                        yield {"kind": "recompile", "route": route, "prog": p, "pi": pi, "opts": [list(a), list(b)], "v": values[0]}


def check_recompile(case, st):
    import os
    from mako.lookup import TemplateLookup
    from mako.template import Template

    imports = ["from mc.c02_env import " + c02_ref.MOD_NAMES]
    d = core.scratch_dir("c02rc")
    texts = set()
    bad = []
    for i, (D, B) in enumerate(case["opts"]):
        prog = dict(case["prog"], D=list(D), B=list(B), fam="recompile")
        text, _ = c02_ref.print_program(prog)
        texts.add(text)
        if len(texts) > 1:
            st.extra["recompile_text_depends_on_options"] = st.extra.get("recompile_text_depends_on_options", 0) + 1
            return
        path = os.path.join(d, "t.html")
        if i == 0:
            with open(path, "w", encoding="utf-8") as f:
                f.write(text)
        ctx = c02_env.resolve(c02_ref.context_for(prog, case["v"]))
        exp = c02_ref.reference(prog, ctx)
        kw = dict(default_filters=list(D), buffer_filters=list(B), imports=list(imports))
        try:
            if case["route"] == "template-filename":
                t = Template(filename=path, **kw)
            elif case["route"] == "lookup-dir":
                t = TemplateLookup(directories=[d], **kw).get_template("/t.html")
            else:
                # each option set has its own module directory (one module directory serves one configuration)
                t = TemplateLookup(directories=[d], module_directory=os.path.join(d, "m%d" % i), **kw).get_template("/t.html")
            obs = ("ok", t.render_unicode(**ctx))
        except BaseException as e:  # noqa
            obs = ("exc", type(e).__name__, str(e)[:200])
        st.evaluations += 1
        st.transitions += exp[2]
        st.oracles["recompile_render_equals_reference"] += 1
        st.outcomes[("recompile", exp[0], obs[0] if obs[0] == "ok" else "exc:" + obs[1])] += 1
        ok = True
        if exp[0] == "ok":
            ok = (obs[0] == "ok" and (obs[1] == exp[1] or obs[1] in exp[3])) or (obs[0] != "ok" and c02_ref.RAISES in exp[3])
        elif exp[0] == "error":
            ok = obs[0] != "ok"
        if not ok:
            what = []
            if i:
                pd, pb = case["opts"][0]
                what = [n for n, x, y in (("default_filters", pd, D), ("buffer_filters", pb, B)) if x != y]
            sig = "recompile:%s:%s" % ("diff" if obs[0] == "ok" else "exc:" + obs[1], "first compile of the file" if i == 0 else "the same file compiled again with other " + "+".join(what))
            bad.append((sig, "render: the file compiled with these options renders as the reference for these options", [exp[1]], list(obs)))
    st.states += 1
    st.traces += 1
    st.nontrivial += 1
    for sig, oracle, e, o in bad[:1]:
        report(st, sig, case, oracle, e, o)
    import shutil

    shutil.rmtree(d, ignore_errors=True)


def spell_prog(src, suffix, filters, pre="[", post="]"):
    body = []
    if pre:
        body.append(["text", pre])
    body.append(["expr", src, list(filters), src + suffix])
    if post:
        if post.startswith("${"):
            body.append(["expr", "'x'", [], None])
        else:
            body.append(["text", post])
    return {"D": None, "P": None, "B": [], "bind": "ctx", "pbind": "imports", "decoy": False, "body": body, "fam": "spell", "pos": "spell"}


def gen_spell(tier, seed):
    """yield (prog, value indexes, family, tags)"""
    seen = set()
    for fam, items, suffixes in c02_spell.grids(tier):
        for src, tags in items:
            for suffix, filters in suffixes:
                raw = src + suffix
                if raw in seen:
                    continue
                seen.add(raw)
                yield spell_prog(src, suffix, filters), (0,), fam, tags
    core = c02_spell.core2()[:4]
    for src, tags in core:
        for pre in c02_spell.PREFIXES:
            for post in c02_spell.POSTFIXES:
                for suffix, filters in (("", []), (" | f1", ["f1"])):
                    yield spell_prog(src, suffix, filters, pre, post), (0,), "junction", tags + ["junction"]
    # spaces just inside the braces
    for src, tags in c02_spell.core1():
        for a in ("", " ", "  "):
            for b in ("", " ", "  "):
                if a or b:
                    p = spell_prog(src, b, [])
                    p["body"][1][3] = a + src + b
                    yield p, (0,), "inner-space", tags


# --------------------------------------------------------------------------
# running one program


def _stages_of(prog):
    """effective stage list of the first value expression (for the non-trivial rule)"""
    for nd in _walk(prog["body"]):
        if nd[0] == "expr" and nd[1] not in ("d()", "caller.body()", "'x'"):
            return c02_ref.expression_stages(nd[2], prog.get("P"), prog.get("D")), nd
    return [], None


def _walk(nodes):
    for nd in nodes:
        yield nd
        if nd[0] in ("def", "block"):
            yield from _walk(nd[3])
        elif nd[0] == "call":
            yield from _walk(nd[2])


def nontrivial(prog):
    st, nd = _stages_of(prog)
    has_n = any(c02_ref.is_n(f) for f in (nd[2] if nd else [])) or any(c02_ref.is_n(f) for f in (prog.get("P") or []))
    extra = []
    for n2 in _walk(prog["body"]):
        if n2[0] == "def" and n2[2].get("filter"):
            extra += n2[2]["filter"]
        elif n2[0] in ("block",) and n2[2]:
            extra += n2[2]
        elif n2[0] == "texttag" and n2[2]:
            extra += n2[2]
    has_n = has_n or any(c02_ref.is_n(f) for f in extra)
    distinct = {f.strip() for f in st + [f for f in extra if not c02_ref.is_n(f)] + list(prog.get("B") or [])} - {"str", "unicode"}
    return has_n or len(distinct) >= 2


def spell_nontrivial(src):
    return any(c in src for c in "|}{#'\"")


signature = c02_sig.signature


_HIST = None  # the recent cases of this worker job (None while replaying)
_BUDGET = [0]


def _describe_prelude(h, case):
    try:
        if h.get("kind") or case.get("kind"):
            return "an earlier " + str(h.get("kind") or "case")
        same = c02_ref.print_program(h["prog"]) == c02_ref.print_program(case["prog"])
    except Exception:  # noqa
        same = False
    return "the same template rendered with another value" if same else "another template in the same process"


def report(st, sig, case, oracle, expected, observed):
    """st.violation, after working out whether the failure needs an earlier case of this process (order dependence)"""
    if _HIST is None:
        st.violation(sig, case, oracle, expected=expected, observed=observed)
        return
    if st.sigcount[sig] >= 2 or _BUDGET[0] <= 0:
        st.sigcount[sig] += 1
        st.extra["violations_not_minimised"] = st.extra.get("violations_not_minimised", 0) + 1
        return
    _BUDGET[0] -= 1
    prelude = core.find_prelude("mc.props.c02", case, list(_HIST), max_tries=24)
    if prelude is None:
        st.extra.setdefault("harness_errors", []).append("failure seen in the worker reproduces neither alone nor after any one of the 24 preceding cases: sig=%s case=%s" % (sig, json.dumps(core.jsonable(case))[:600]))
        return
    if prelude:
        sig += ":only after " + _describe_prelude(prelude[0], case)
        case = dict(case, prelude=prelude)
    st.violation(sig, case, oracle, expected=expected, observed=observed)


def check_prog(prog, vnames, st, tags=None, fam=None, lex=False, nt=None):
    from mako.template import Template

    fam = fam or prog.get("fam", "pipe")
    text, kw = c02_ref.print_program(prog)
    try:
        if prog.get("via") == "lookup":
            from mako.lookup import TemplateLookup

            lk = TemplateLookup(**kw)
            lk.put_string("/c02.mako", text)
            tmpl = lk.get_template("/c02.mako")
        else:
            tmpl = Template(text, **kw)
        cexc = None
    except BaseException as e:  # noqa
        tmpl = None
        cexc = ("exc", type(e).__name__, str(e)[:300], "compile")
    if nt is None:
        nt = nontrivial(prog)
    sub = prog.get("sub")
    subt = None
    if sub is not None:
        stext, skw = c02_ref.print_program(sub)
        sctx = c02_env.resolve(c02_ref.context_for(sub, None))
        try:
            subt = Template(stext, **skw)
        except BaseException as e:  # noqa
            tmpl, cexc = None, ("exc", type(e).__name__, str(e)[:300], "compile-sub")
    for vname in vnames:
        ctxj = c02_ref.context_for(prog, vname)
        ctx = c02_env.resolve(ctxj)
        mctx = ctx
        if sub is not None:
            # the same callable on both sides in meaning: "render the second template with its own filters"
            ctx = dict(ctx, sub=c02_ref.reference_sub(sub, sctx))
            mctx = dict(mctx, sub=(lambda: subt.render_unicode(**sctx)))
        exp = c02_ref.reference(prog, ctx)
        st.oracles["reference_" + exp[0]] += 1
        if tmpl is None:
            obs = cexc
        else:
            try:
                obs = ("ok", tmpl.render_unicode(**mctx))
            except BaseException as e:  # noqa
                obs = ("exc", type(e).__name__, str(e)[:300], "render")
        st.evaluations += 1
        st.states += 1
        st.traces += 1
        st.transitions += exp[2]
        if nt:
            st.nontrivial += 1
        st.outcomes[(fam if fam in ("pipe", "tagf", "bind", "decoy", "nest", "multi", "vals", "fpart", "strict") else "spell", exp[0], obs[0] if obs[0] == "ok" else "exc:" + obs[1])] += 1
        bad = None
        case = {"prog": prog, "ctx": ctxj, "tags": tags or []}
        if exp[0] == "ok":
            st.oracles["render_equals_reference"] += 1
            if obs[0] != "ok":
                if c02_ref.RAISES in exp[3]:
                    pass  # one allowed reading of a text filter given a non-string
                elif obs[1] in (prog.get("may_reject") or ()):
                    st.outcomes[(fam, "rejected", obs[1])] += 1  # a spelling the documentation never shows, refused loudly
                else:
                    bad = "documented pipeline has a value but the template raises"
            elif obs[1] != exp[1] and obs[1] not in exp[3]:
                bad = "output differs from the documented composition"
        elif exp[0] == "error":
            st.oracles["render_raises"] += 1
            if obs[0] == "ok":
                bad = "documented composition raises %s but the template renders" % exp[1]
        if bad:
            report(st, signature(prog, exp, obs, tags, text), case, "render: " + bad, [exp[1]] + [("<raises>" if a == c02_ref.RAISES else a) for a in (exp[3] if exp[0] == "ok" else [])], list(obs))
        if _HIST is not None:
            _HIST.append(case)
        if st.evaluations % 4999 == 1:
            st.sample({"template": text, "template_kwargs": kw, "ctx": ctxj, "expected": list(exp[:2]), "observed": list(obs[:2])})
    if lex:
        check_lex(prog, text, st, tags)
    return text, kw


def check_lex(prog, text, st, tags):
    """the Expression node must hold exactly the expression text and the filter part"""
    from mako import parsetree
    from mako.lexer import Lexer

    st.oracles["expression_node_split"] += 1
    st.evaluations += 1
    want = []
    for nd in prog["body"]:
        if nd[0] == "text":
            want.append(("T", nd[1]))
        else:
            raw = nd[3] if nd[3] is not None else nd[1]
            src = nd[1]
            assert raw.lstrip().startswith(src), (raw, src)
            rest = raw.lstrip()[len(src) :].strip()
            esc = rest[1:].strip() if rest.startswith("|") else ""
            want.append(("E", src.replace("\r\n", "\n").strip(), esc))
    try:
        nodes = Lexer(text).parse().nodes
    except BaseException as e:  # noqa
        got = ("exc", type(e).__name__, str(e)[:200])
        nodes = None
    if nodes is not None:
        got = []
        for n in nodes:
            if isinstance(n, parsetree.Text):
                if got and got[-1][0] == "T":
                    got[-1] = ("T", got[-1][1] + n.content)
                else:
                    got.append(("T", n.content))
            elif isinstance(n, parsetree.Expression):
                got.append(("E", n.text.strip(), n.escapes.strip()))
            else:
                got.append(("?", type(n).__name__))
    # merge adjacent expected texts
    w2 = []
    for w in want:
        if w[0] == "T" and w2 and w2[-1][0] == "T":
            w2[-1] = ("T", w2[-1][1] + w[1])
        else:
            w2.append(w)
    if got != w2:
        how = "exc:" + got[1] if nodes is None else "split"
        sig = signature(prog, ("ok",), ("exc", got[1]) if nodes is None else ("ok",), tags, text)
        if not sig.startswith(("spell:cut", "spell:scanner", "spell:ran")):
            sig = "node:%s:%s" % (how, (tags or ["?"])[0])
        report(st, sig, {"prog": prog, "ctx": None, "tags": tags or [], "lex": True}, "lexer: Expression node does not hold the expression text / filter part", [list(w) for w in w2], [list(g) for g in got] if nodes is not None else list(got))


# --------------------------------------------------------------------------
# jobs

N_PIPE, N_TAGF, N_SPELL, N_BIND, N_SHARED, N_STRICT = 41, 17, 23, 7, 4, 11  # primes: shards cut across every dimension


def plan(tier, seed):
    jobs = []
    for i in range(N_PIPE):
        jobs.append({"kind": "pipe", "tier": tier, "seed": seed, "shard": i, "nshards": N_PIPE})
    for i in range(N_SPELL):
        jobs.append({"kind": "spell", "tier": tier, "seed": seed, "shard": i, "nshards": N_SPELL})
    for i in range(N_TAGF):
        jobs.append({"kind": "tagf", "tier": tier, "seed": seed, "shard": i, "nshards": N_TAGF})
    for i in range(N_BIND):
        jobs.append({"kind": "bind", "tier": tier, "seed": seed, "shard": i, "nshards": N_BIND})
    jobs.append({"kind": "nest", "tier": tier, "seed": seed, "shard": 0, "nshards": 1})
    jobs.append({"kind": "vals", "tier": tier, "seed": seed, "shard": 0, "nshards": 1, "reverse": False})
    jobs.append({"kind": "vals", "tier": tier, "seed": seed, "shard": 0, "nshards": 1, "reverse": True})
    jobs.append({"kind": "fpart", "tier": tier, "seed": seed, "shard": 0, "nshards": 1})
    for i in range(N_STRICT):
        jobs.append({"kind": "strict", "tier": tier, "seed": seed, "shard": i, "nshards": N_STRICT})
    for i in range(N_SHARED):
        jobs.append({"kind": "shared", "tier": tier, "seed": seed, "shard": i, "nshards": N_SHARED})
    for i in range(2):
        jobs.append({"kind": "recompile", "tier": tier, "seed": seed, "shard": i, "nshards": 2})
    return jobs


def run_job(job):
    st = Stats()
    t0, c0 = time.time(), time.process_time()
    try:
        _run_job(job, st)
    finally:
        st.extra["cpu_s_" + job["kind"]] = round(time.process_time() - c0, 1)
        st.extra["wall_s_" + job["kind"]] = round(time.time() - t0, 1)
    return st


def _run_job(job, st):
    global _HIST
    import collections

    _HIST = collections.deque(maxlen=50)
    _BUDGET[0] = 6
    try:
        return _run_job2(job, st)
    finally:
        _HIST = None


def _run_job2(job, st):
    tier, seed, sh, ns = job["tier"], job["seed"], job["shard"], job["nshards"]
    _, values = alphabet(seed)
    seen = set()
    nprog = 0
    if job["kind"] == "shared":
        for i, case in enumerate(shared_cases(tier, seed)):
            if i % ns != sh:
                continue
            check_shared(case, st)
            nprog += 1
        st.extra["histories_shared"] = nprog
        return st
    if job["kind"] == "recompile":
        for i, case in enumerate(recompile_cases(tier, seed)):
            if i % ns != sh:
                continue
            check_recompile(case, st)
            nprog += 1
        st.extra["histories_recompile"] = nprog
        return st
    if job["kind"] == "spell":
        for i, (prog, vi, fam, tags) in enumerate(gen_spell(tier, seed)):
            if i % ns != sh:
                continue
            src = [nd for nd in prog["body"] if nd[0] == "expr"][0][1]
            text, kw = check_prog(prog, [values[j] for j in vi], st, tags=[fam] + tags, fam="spell", lex=True, nt=spell_nontrivial(src))
            nprog += 1
            st.extra["spell_" + fam] = st.extra.get("spell_" + fam, 0) + 1
            seen.add(zlib.crc32(text.encode("utf-8")))
    else:
        gen = {"pipe": gen_pipe, "tagf": gen_tagf, "bind": gen_bind, "nest": gen_nest, "vals": gen_vals, "fpart": gen_fpart, "strict": gen_strict}[job["kind"]]
        it = gen(tier, seed, job["reverse"]) if job["kind"] == "vals" else gen(tier, seed)
        for i, (prog, vi) in enumerate(it):
            if i % ns != sh:
                continue
            text, kw = check_prog(prog, [values[j] if isinstance(j, int) else j for j in vi], st)
            nprog += 1
            rest = [kw, prog.get("via"), prog.get("vals"), c02_ref.print_program(prog["sub"]) if prog.get("sub") else None, job.get("reverse")]
            seen.add((zlib.crc32(text.encode("utf-8")), zlib.crc32(json.dumps(rest, sort_keys=True).encode())))
    st.extra["programs_" + job["kind"]] = st.extra.get("programs_" + job["kind"], 0) + nprog
    st.extra["duplicate_programs"] = st.extra.get("duplicate_programs", 0) + (nprog - len(seen))
    return st


# --------------------------------------------------------------------------


def replay(case):
    st = Stats()
    if case.get("kind") in ("shared", "recompile"):
        (check_shared if case["kind"] == "shared" else check_recompile)(case, st)
        if st.violations:
            return False, "reproduced: %r" % (st.violations[0],)
        return True, "holds"
    prog = case["prog"]
    if case.get("lex"):
        text, _ = c02_ref.print_program(prog)
        check_lex(prog, text, st, case.get("tags"))
    else:
        check_prog(prog, [None if prog.get("vals") else case["ctx"]["v"]], st, tags=case.get("tags"), lex=False)
    if st.violations:
        v = st.violations[0]
        text, kw = c02_ref.print_program(prog)
        return False, "reproduced: template=%r kwargs=%r ctx=%r expected=%r observed=%r" % (text, kw, case.get("ctx"), v["expected"], v["observed"])
    return True, "holds"


def corpus(limit=400):
    """representative programs of the smallest non-trivial bound, simplest first, spread over all construct kinds"""
    seed = 0
    F, values = alphabet(seed)
    streams = []

    def pipe_stream(pos):
        for L in lists_upto(F, 2):
            for D, P in [(None, None), (["f3", "h"], ["f4"]), ([], ["n", "f4"]), (["decode.utf8"], ["f4", "x"]), (["f3"], ["n"])]:
                yield pipe_prog(L, D, P, pos), None

    for pos in POSITIONS:
        streams.append(pipe_stream(pos))

    def tag_stream(cons, ce):
        for L in lists_upto(F, 2):
            for B, D, P in [([], None, None), (["f5", "trim"], ["f3", "h"], ["n", "f4"])]:
                yield tagf_prog(L, cons, ce, B, D, P), None

    for cons, ce in TAG_CONSTRUCTS:
        streams.append(tag_stream(cons, ce))

    def bind_stream():
        for p, _ in gen_bind("quick", seed):
            yield p, None

    streams.append(bind_stream())

    def nest_stream():
        for p, _ in gen_nest("quick", seed):
            if p.get("sub") is None:
                yield p, None

    streams.append(nest_stream())

    def spell_stream(fams):
        for prog, vi, fam, tags in gen_spell("quick", seed):
            if fam in fams:
                yield prog, None

    for fams in (("atoms",), ("depth1",), ("depth2",), ("spacing", "fargs", "junction", "inner-space")):
        streams.append(spell_stream(fams))
    out = []
    seen = set()
    vcycle = 0
    live = [iter(s) for s in streams]
    while live and len(out) < limit:
        nxt = []
        for it in live:
            if len(out) >= limit:
                break
            got = None
            for prog, _ in it:
                text, kw = c02_ref.print_program(prog)
                vname = values[vcycle % len(values)] if prog["fam"] != "spell" else values[0]
                if prog.get("vals"):
                    vname = None
                key = (text, json.dumps(kw, sort_keys=True), json.dumps(vname))
                if key in seen:
                    continue
                seen.add(key)
                got = (prog, text, kw, vname)
                break
            if got is None:
                continue
            nxt.append(it)
            prog, text, kw, vname = got
            vcycle += 1
            ctxj = c02_ref.context_for(prog, vname)
            exp = c02_ref.reference(prog, c02_env.resolve(ctxj))
            if exp[0] == "error":
                continue
            out.append(
                {
                    "files": {"/c02.mako": text},
                    "main": "/c02.mako",
                    "ctx": ctxj,
                    # a program with more than one admissible reading (a text filter given a non-string) has no single
                    # reference output: the cross-path property still demands agreement between the paths
                    "expected": exp[1] if exp[0] == "ok" and not exp[3] else None,
                    "template_kwargs": kw,
                }
            )
        live = nxt
    return out


READY = True
