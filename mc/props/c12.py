"""C12 - runtime tracebacks and compile warnings map to template lines.

Engine E1 (fault planting): every IR program of a bounded weight (mc/c12_ir.py), every
insertion position in it, one planted raising leaf (or one warning-triggering literal) at a
time, built through the construction paths string / file / lookup / module directory /
module directory re-opened, rendered by the real code.  The real traceback and
RichTraceback().records are walked in step and compared with the chain of template frames the
reference interpreter of the IR predicts; text/HTML error templates and format_exceptions are
compared with the (validated) records; recorded warnings with the planted line.
"""

import collections
import html as _html
import os
import re
import shutil
import sys
import time
import traceback
import warnings

from mc import c12_env, c12_ir, core
from mc.core import Stats

PROPERTY = "C12"
LEVEL = "model_checking"
ENGINE = "E1"
TECHNIQUE = (
    "bounded exhaustive fault planting: every IR program x every insertion position x every raising leaf / "
    "warning literal, executed on the real Template/TemplateLookup through six construction paths and compared "
    "frame by frame with a reference interpreter of the IR"
)
PATHS = ["string", "file", "lookup", "moddir", "moddir2", "tmodlink", "modshared"]
# warning grid only: a module file is already there, fresh enough, written by "another Mako" (other _magic_number):
# modmagic = TemplateLookup, lower number, same layout; tmodmagic = Template(filename=, module_directory=), higher number,
# old layout two lines longer (its own line map shifted accordingly)
MAGIC_PATHS = ["modmagic", "tmodmagic"]
ACTIONS = ["always", "once", "error"]
PRINCIPAL = ["r_expr", "r_code2"]

CORE_KINDS = [
    "t1", "t2", "e", "em", "c1", "c3", "cm", "tt", "mod", "pg",
    "if", "for", "forl", "defb", "defa", "block", "ablock", "calltag", "include", "ns", "inh",
]

QUICK2_KINDS = ["c3", "if", "forl", "defb", "block", "calltag", "include"]

W3_KINDS = ["c3", "mod", "if", "forl", "defb", "block", "calltag", "include"]
WARN2_KINDS = QUICK2_KINDS + ["mod", "ablock", "inh", "t2", "ns"]

BOUNDS = {
    "quick": {
        "raise_full_product": "weight<=1 over all 32 kinds, LF: every position x 14 raise kinds x 6 paths",
        "raise_rotated": "weight 2 over 7 kinds (QUICK2_KINDS) LF and weight<=1 over all kinds CRLF: every (program,position,kind) "
        "on one rotating path; plus weight 2 over {t1, include, inh} (text before an include / inherit chain) + HTML page for the 2 principal kinds and format_exceptions on one path",
        "warn": "weight<=1 (all kinds, LF) and weight 2 over {ablock, defb}: every position x 8 warning plants x 6 paths x {always,error}, 'once' on one rotating path; "
        "the same x 2 stale-magic routes (module file present, fresh, _magic_number -1 / +1 with a longer old layout)",
        "recompiled_module_file": "weight<=1 all kinds LF: every position x {${1/0}, <% %> line 2, <%! %> function, 4 warning plants} x "
        "{same lookup with filesystem_checks, new lookup on the same module directory}: version 1 -> observe -> 2 lines inserted "
        "at the top of every file, 10 s later -> reload in the same process -> observe",
        "failed_construction_then_retry": "weight<=1 single-file programs: every position x 7 warning plants x 4 ways a first "
        "construction under the same word-character URI raises (ImportError in <%! %>, module SyntaxError, warning-as-error at "
        "module compile, warning-as-error at expression parse)",
        "raise_kinds": c12_ir.RAISE_KINDS,
        "warn_kinds": c12_ir.WARN_KINDS,
        "paths": PATHS,
        "long_modules": "every weight-1 program behind 45 one-line fillers (${x} lines or <% %> lines) and ahead of 3: the generated module passes 100 lines; "
        "8 positions (first, second, middle, around the program, last two) x {${1/0} with the HTML page, <% %> line 2, 2 warning plants} on rotating paths",
    },
    "thorough": {
        "long_modules": "as quick plus 40+30 fillers and 480+3 fillers (module passes 1000 lines), LF and CRLF",
        "raise_full_product": "weight<=2 over all 32 kinds, LF: every position x 14 raise kinds x 6 paths",
        "raise_rotated": "weight 3 over 8 kinds (W3_KINDS) LF; weight<=2 over the 21 core kinds CRLF (rotating path + principal kinds on all paths)",
        "warn": "weight<=1 all kinds LF and CRLF, weight 2 over 12 kinds (WARN2_KINDS) LF: every position x 8 warning plants x 6 paths x {always,once,error}",
        "recompiled_module_file": "as quick, over weight<=2 (QUICK2_KINDS) LF and weight 1 all kinds LF+CRLF",
        "failed_construction_then_retry": "as quick, over weight<=2 (QUICK2_KINDS) and weight 1 all kinds",
        "raise_kinds": c12_ir.RAISE_KINDS,
        "warn_kinds": c12_ir.WARN_KINDS,
        "paths": PATHS,
    },
}

RULE = (
    "Programs: every item sequence of the stated weight over the stated IR kinds (weight = number of IR nodes, "
    "nesting included), simplest first; positions: every insertion point of every body list; one plant per case. "
    "Canonical case = (program, newline style, position, plant kind); it is executed once per construction path "
    "(and warning filter action).  Non-trivial = the planted line is not line 1 of its file or the expected chain "
    "has more than one template frame (the reported line then depends on what was emitted before / around the plant). "
    "Two history families (each case = a two-step sequence in one process, always counted non-trivial): a module-directory "
    "template observed, edited so that every line moves, reloaded and observed again; a construction that raises followed by "
    "a warning-emitting template under the same URI."
)
ASSUMPTIONS = [
    "CPython eval/exec/compile (with line offsets), traceback.extract_tb and the warnings module are trusted",
    "a template line ends at \"\\n\" only: the filler words of every seed carry one character that str.splitlines() would also "
    "split at (FF, U+2028, NEL, FS); the reported source line is compared with source.split('\\n')[line-1]",
    "stale-magic routes (warning grid): the old module is imported, found to be another release's, written again and imported "
    "again, so the literal's warning is emitted once or twice; the count is not demanded there, the location of every showing is",
    "construction paths: string, file, lookup, moddir (TemplateLookup whose module_directory goes through a symbolic link), "
    "moddir2 (plain module directory, re-opened), tmodlink (Template(filename=, module_directory=via a symbolic link)), "
    "modshared (module files generated earlier from the same templates under another, since removed, directory)",
    "the reference interpreter (mc/c12_ir.py, ~250 lines) implements DESIGN Appendix A for the enabled constructs only; "
    "its expected outputs are additionally validated against every unplanted program on every path",
    "frames of forwarding stubs (bare-name call of a top-level def) are optional in the expected chain and may carry the "
    "line of the calling construct, of the called def's tag, or of the tag that begins the callable holding the stub; "
    "a line outside 1..N is never accepted",
    "under the warning filter action 'error' only: an exception must come out and nothing may be shown; its line is "
    "checked only when Mako raises its own exception type (a raw SyntaxError of the byte-code stage is C11's known finding)",
    "for a multi-line ${} both the first line of the construct and the exact line of the literal are accepted for a warning",
    "the groups called 'rotated' in BOUNDS are not run as the full kind x path product but as: every (program, position, "
    "kind) on one path chosen by rotation, and every (program, position, path) with the two principal kinds (${1/0}, <% %> line 2)",
    "html_error_template is checked for the principal kinds on the rotating path and format_exceptions=True for ${1/0} on the "
    "rotating path only (they consume the already validated RichTraceback); the pygments highlight check is skipped when "
    "pygments is not installed",
    "a def default in a re-opened module directory: the template is not compiled again and the regenerated signature carries "
    "no warning-triggering literal, so the number of warnings shown there is not demanded",
    "sys.dont_write_bytecode is on (no .pyc), so a re-opened module directory compiles the module file again",
    "r_base raises a BaseException that is not an Exception (custom class / SystemExit / KeyboardInterrupt / GeneratorExit by "
    "seed): checked like any failure, with format_exceptions=True on every path (weight<=1) and, for it and the principal kinds, "
    "RichTraceback(), RichTraceback(error=<class>), text/html_error_template().render(error=<class or instance>, traceback=None) "
    "called inside the except block must agree with RichTraceback(error, traceback)",
    "universal: warnings.showwarning must be the same object before and after every construction+render of every case, "
    "whether it failed or not (checked inside the recording context, before that context restores the hook itself)",
    "history families cover process-wide state reached through the module path / the module id only (one edit of 2 comment "
    "lines per file, one failed construction); longer histories are C14/C15's business",
]
LEVEL_TEXT = (
    "Within the bounds every planted failure / warning literal is executed on the real library and every template "
    "frame's file name, source, line, every non-template frame, tb.lineno/tb.source, the three error renderers and the "
    "recorded warnings are compared with an independent prediction. Complete within those bounds; no sampling."
)
LEVEL_NOTE = "Trusted: CPython, the IR printer/interpreter in mc/c12_ir.py. Larger programs and other construct spellings are not covered."
READY = True


# --------------------------------------------------------------------------
# building templates through the construction paths


class Built:
    pass


def _write_files(low, d):
    for uri, text in low.files.items():
        with open(os.path.join(d, uri.lstrip("/")), "w", encoding="utf-8", newline="") as fh:
            fh.write(text)


def build(low, path, d, kw=None):
    """construct the main template of `low` through `path`; returns Built (main, names, lookup)"""
    from mako.lookup import TemplateLookup
    from mako.template import Template

    kw = dict(kw or {})
    b = Built()
    b.lookup = None
    b.names = {}
    if path == "string":
        if len(low.files) == 1:
            b.main = Template(low.files[low.main], **kw)
            b.names[low.main] = {b.main.uri}
        else:
            lk = TemplateLookup(**kw)
            for uri, text in low.files.items():
                lk.put_string(uri, text)
                b.names[uri] = {uri}
            b.lookup = lk
            b.main = lk.get_template(low.main)
        return b
    _write_files(low, d)
    for uri in low.files:
        b.names[uri] = {d + uri, uri}
    if path == "file":
        lk = TemplateLookup(directories=["/"], **kw) if len(low.files) > 1 else None
        b.lookup = lk
        b.main = Template(filename=d + low.main, lookup=lk, **kw)
        for uri in low.files:
            b.names[uri] = {d + uri}
    elif path == "lookup":
        b.lookup = TemplateLookup(directories=[d], **kw)
        b.main = b.lookup.get_template(low.main)
    elif path in MAGIC_PATHS:
        m = os.path.join(d, "_mods")
        dirs = [d] if path == "modmagic" else ["/"]
        with warnings.catch_warnings():
            warnings.simplefilter("ignore")
            lk0 = TemplateLookup(directories=dirs, module_directory=m)
            for uri in low.files:
                lk0.get_template(uri if path == "modmagic" else d + uri)
            del lk0
        for root, _dirs, fns in os.walk(m):
            for fn in fns:
                if fn.endswith(".py"):
                    other_magic(os.path.join(root, fn), -1 if path == "modmagic" else 1, 0 if path == "modmagic" else 2)
        if path == "modmagic":
            b.lookup = TemplateLookup(directories=dirs, module_directory=m, **kw)
            b.main = b.lookup.get_template(low.main)
        else:
            b.lookup = TemplateLookup(directories=dirs, module_directory=m, **kw) if len(low.files) > 1 else None
            b.main = Template(filename=d + low.main, module_directory=m, lookup=b.lookup, **kw)
            for uri in low.files:
                b.names[uri] = {d + uri}
    elif path == "tmodlink":
        # Template(filename=, module_directory=) whose module directory is reached through a symbolic link
        os.makedirs(os.path.join(d, "_releases", "42"))
        os.symlink(os.path.join("_releases", "42"), os.path.join(d, "_current"))
        m = os.path.join(d, "_current", "mods")
        lk = TemplateLookup(directories=["/"], module_directory=m, **kw) if len(low.files) > 1 else None
        b.lookup = lk
        b.main = Template(filename=d + low.main, module_directory=m, lookup=lk, **kw)
        for uri in low.files:
            b.names[uri] = {d + uri}
    elif path == "modshared":
        # a module directory shared by two template directories: the module files were generated (by an earlier lookup)
        # from the same templates under another directory, which is gone by now; they are as new as the templates and reused
        import shutil

        m = os.path.join(d, "_mods")
        old = os.path.join(d, "_old")
        os.makedirs(old)
        _write_files(low, old)
        with warnings.catch_warnings():
            warnings.simplefilter("ignore")
            lk0 = TemplateLookup(directories=[old], module_directory=m)
            for uri in low.files:
                lk0.get_template(uri)
            del lk0
        shutil.rmtree(old)
        b.lookup = TemplateLookup(directories=[d], module_directory=m, **kw)
        b.main = b.lookup.get_template(low.main)
    elif path in ("moddir", "moddir2"):
        m = os.path.join(d, "_mods")
        if path == "moddir":
            # the module directory of the lookup is spelled through a symbolic link (current -> releases/42)
            os.makedirs(os.path.join(d, "_releases", "42"))
            os.symlink(os.path.join("_releases", "42"), os.path.join(d, "_current"))
            m = os.path.join(d, "_current", "mods")
        if path == "moddir2":
            with warnings.catch_warnings():
                warnings.simplefilter("ignore")
                lk0 = TemplateLookup(directories=[d], module_directory=m)
                for uri in low.files:
                    lk0.get_template(uri)
                del lk0
        b.lookup = TemplateLookup(directories=[d], module_directory=m, **kw)
        b.main = b.lookup.get_template(low.main)
    else:
        raise ValueError(path)
    return b


def other_magic(path, delta, shift):
    """rewrite a generated module file as if another Mako had written it: _magic_number +- 1 and, with shift > 0, `shift`
    more lines at its top with its recorded line map moved accordingly; the file stays as new as the template"""
    import json

    with open(path, encoding="utf-8", newline="") as fh:
        text = fh.read()
    text, n = re.subn(r"(?m)^_magic_number = (\d+)$", lambda mm: "_magic_number = %d" % (int(mm.group(1)) + delta), text)
    assert n == 1, path
    if shift:
        mm = re.search(r"__M_BEGIN_METADATA\n(.+?)\n__M_END_METADATA", text, re.S)
        meta = json.loads(mm.group(1))
        meta["line_map"] = {str(int(k_) + shift): v for k_, v in meta["line_map"].items()}
        text = text[: mm.start(1)] + json.dumps(meta) + text[mm.end(1):]
        first, rest = text.split("\n", 1)  # line 1 is the coding comment
        text = first + "\n" + "# written by another release\n" * shift + rest
    with open(path, "w", encoding="utf-8", newline="") as fh:
        fh.write(text)


def registry(b, low):
    """code file name of every template module the harness created -> program uri"""
    reg = {}
    tmpls = {low.main: b.main}
    if b.lookup is not None:
        for key, t in list(b.lookup._collection.items()):
            uri = "/" + key.rsplit("/", 1)[-1]
            if uri in low.files:
                tmpls.setdefault(uri, t)
    for uri, t in tmpls.items():
        try:
            reg[t.module.render_body.__code__.co_filename] = uri
        except AttributeError:
            pass
    b.templates = tmpls
    return reg


# --------------------------------------------------------------------------
# oracles


def match_chain(exp, obs):
    """exp: frames {uri, lines, optional}; obs: [(uri, line)] -> True/False"""

    def m(i, j):
        if i == len(exp):
            return j == len(obs)
        e = exp[i]
        if j < len(obs) and obs[j][0] == e["uri"] and obs[j][1] in e["lines"] and m(i + 1, j + 1):
            return True
        return bool(e["optional"]) and m(i + 1, j)

    return m(0, 0)


def chain_sig(exp, obs, nlines):
    """footprint of the first mismatching frame"""
    req = [e for e in exp if not e["optional"]]
    if len(obs) == len(exp):
        al = exp
    elif len(obs) == len(req):
        al = req
    else:
        return "tb:frames:count", "template frames expected %d (or %d), observed %d" % (len(exp), len(req), len(obs))
    for e, o in zip(al, obs):
        if o[0] != e["uri"]:
            return "tb:frames:uri:" + e["kind"], "frame of %s expected, %s observed" % (e["uri"], o[0])
        if o[1] in e["lines"]:
            continue
        ln = o[1]
        if ln == 0:
            rel = "line0"
        elif ln < 1 or ln > nlines.get(o[0], 0):
            rel = "out-of-range"
        elif ln < min(e["lines"]):
            rel = "before"
        elif ln > max(e["lines"]):
            rel = "after"
        else:
            rel = "between"
        return "tb:line:%s:%s" % (e["kind"], rel), "frame %s of %s: line in %s expected, %d observed" % (
            e["kind"], e["uri"], sorted(e["lines"]), ln)
    return "tb:frames:other", "no alignment"


_LOC = re.compile(r'<div class="location">(.*?), line (\d+):</div>')
_HL = re.compile(r'class="error [^"]*"><table.*?<span class="normal">\s*(\d+)</span>', re.S)


class Checker:
    """all oracles for one execution; collects (sig, text, expected, observed)"""

    def __init__(self, low, st):
        self.low = low
        self.st = st
        self.viol = []
        self.nlines = {u: t.count("\n") + 1 for u, t in low.files.items()}

    def bad(self, sig, text, expected=None, observed=None):
        self.viol.append((sig, text, expected, observed))

    # ---- traceback
    def check_forms(self, forms, recs, text_out, html_out):
        self.st.oracles["api_forms"] += 1
        for name, (how, val) in forms.items():
            if how == "raises":
                self.bad("api:%s:raises:%s" % (name, val.split(":")[0]), "%s inside the except block fails" % name, None, val)
            elif name.startswith("RichTraceback"):
                if [tuple(r) for r in val] != [tuple(r) for r in recs]:
                    self.bad("api:%s:records-differ" % name, "%s reports other records than RichTraceback(error, traceback)" % name, len(recs), len(val))
            elif name == "text(error=instance)":
                if text_out is not None and _norm(val) != _norm(text_out):
                    self.bad("api:%s:differs" % name, "text page differs from the one rendered with explicit error and traceback", text_out[-300:], val[-300:])
            elif name == "text(error=class)":
                if text_out is not None and _norm(val)[:-1] != _norm(text_out)[:-1]:
                    self.bad("api:%s:differs" % name, "frames of the text page differ from the one rendered with explicit error and traceback", text_out[-300:], val[-300:])
            elif name == "html(error=class)":
                if html_out is not None and _LOC.findall(val) != _LOC.findall(html_out):
                    self.bad("api:%s:differs" % name, "location lines differ from the page rendered with explicit error and traceback", None, _LOC.findall(val)[:4])

    def check_tb(self, err, tb, b, chain, path, html, forms=None):
        from mako import exceptions

        st = self.st
        low = self.low
        reg = registry(b, low)
        raw = traceback.extract_tb(tb)
        try:
            rt = exceptions.RichTraceback(error=err, traceback=tb)
        except Exception as e:  # noqa
            self.bad("tb:richtraceback-raises:" + type(e).__name__, "RichTraceback() itself failed", None, repr(e)[:300])
            return
        recs = rt.records
        st.oracles["records_in_step"] += 1
        if len(recs) != len(raw):
            self.bad("tb:records:count", "records and extract_tb differ in length", len(raw), len(recs))
            return
        obs = []
        fmt = []
        for r, w in zip(recs, raw):
            st.transitions += 1
            line = w.line or ""
            if tuple(r[0:4]) != (w.filename, w.lineno, w.name, line):
                self.bad("tb:raw-fields-changed", "first four record fields differ from extract_tb", [w.filename, w.lineno, w.name, line], list(r[0:4]))
            uri = reg.get(w.filename)
            if uri is None:
                st.oracles["python_frame_unchanged"] += 1
                if tuple(r[4:8]) != (None, None, None, None):
                    self.bad("tb:python-frame-mapped", "frame of an ordinary Python module is reported as a template frame", None, [w.filename, r[4], r[5]])
                fmt.append((w.filename, w.lineno, w.name, line))
                continue
            st.oracles["template_frame"] += 1
            if r[4] is None:
                self.bad("tb:template-frame-unmapped:" + path, "frame of a template module is not recognised", uri, w.filename)
                fmt.append((w.filename, w.lineno, w.name, line))
                continue
            if r[4] not in b.names[uri]:
                self.bad("tb:filename:" + path, "template frame reported under a name that is neither the filename nor the URI", sorted(b.names[uri]), r[4])
            src = low.files[uri]
            others = [t for u, t in low.files.items() if u != uri]
            if r[7] != src and r[7] in others and any(o[0] == uri for o in obs):
                self.bad("tb:revisited-template-carries-other-source", "a template that appears a second time in the traceback is reported with another template's source", src[:80], (r[7] or "")[:80])
            elif r[7] != src:
                self.bad("tb:template-source:" + path, "template source of the record is not the template's source", src[:200], (r[7] or "")[:200])
            ln = r[5]
            obs.append((uri, ln))
            lines = src.split("\n")
            if isinstance(ln, int) and 1 <= ln <= len(lines):
                # a CRLF template: the line with or without its CR is that line of the template
                if r[6] != lines[ln - 1] and r[6] != lines[ln - 1].rstrip("\r"):
                    self.bad("tb:template-line-text", "source line of the record is not that line of the template", lines[ln - 1], r[6])
            fmt.append((r[4], r[5], r[2], r[6]))
        st.oracles["chain"] += 1
        if not match_chain(chain, obs):
            sig, txt = chain_sig(chain, obs, self.nlines)
            self.bad(sig, txt, [[e["uri"], e["lines"], e["kind"], e["optional"]] for e in chain], obs)
        # (c) lineno / source of the innermost template frame
        if obs:
            st.oracles["lineno_source"] += 1
            uri, ln = obs[-1]
            revisited = any(o[0] == uri for o in obs[:-1]) and len({o[0] for o in obs}) > 1
            if ln and rt.lineno == ln and revisited and rt.source != low.files[uri] and rt.source in low.files.values():
                self.bad("tb:revisited-template-carries-other-source", "tb.source is another template's source (innermost template seen earlier in the traceback)", low.files[uri][:80], (rt.source or "")[:80])
            elif ln and (rt.lineno != ln or rt.source != low.files[uri]):
                self.bad("tb:lineno-source", "tb.lineno/tb.source are not the innermost template frame's", [ln, uri], [rt.lineno, (rt.source or "")[:60]])
        # traceback / reverse_traceback views
        st.oracles["views"] += 1
        try:
            if list(rt.traceback) != fmt or list(rt.reverse_traceback) != fmt[::-1]:
                self.bad("tb:traceback-view", ".traceback/.reverse_traceback differ from the records", fmt[-3:], list(rt.traceback)[-3:])
        except Exception as e:  # noqa
            self.bad("tb:traceback-view", ".traceback raised", None, repr(e)[:200])
        # text error template
        st.oracles["text_template"] += 1
        st.transitions += 1
        text_out = html_out = None
        try:
            out = text_out = _text_template().render_unicode(error=err, traceback=tb)
            exp = "Traceback (most recent call last):\n" + "".join(
                '  File "%s", line %s, in %s\n    %s\n' % (f, l, fn or "?", ("" if s is None else str(s)).strip()) for f, l, fn, s in fmt
            ) + "%s: %s" % (type(err).__name__, str(err))
            if _norm(out) != _norm(exp):
                self.bad("text:differs-from-records", "text_error_template output is not the formatted records", exp[-400:], out[-400:])
        except Exception as e:  # noqa
            self.bad("text:raises:" + type(e).__name__, "text_error_template failed", None, repr(e)[:300])
        if html:
            st.oracles["html_template"] += 1
            st.transitions += 1
            try:
                out = html_out = _html_template().render_unicode(error=err, traceback=tb)
                revisited = bool(obs) and any(o[0] == obs[-1][0] for o in obs[:-1]) and rt.source != low.files[obs[-1][0]]
                # the excerpt is cut from tb.source: when that is already reported as another template's source, the
                # highlighted line is not judged a second time
                self.check_html(out, [(f, l) for f, l, _fn, _s in fmt][::-1], obs[-1][1] if obs and not revisited else None, "html")
            except Exception as e:  # noqa
                self.bad("html:raises:" + type(e).__name__, "html_error_template failed", None, repr(e)[:300])
        if forms:
            self.check_forms(forms, recs, text_out, html_out)

    def check_html(self, out, locs, hl, tag):
        from mako import exceptions

        got = [(f, int(l)) for f, l in _LOC.findall(out)]
        if locs is not None and got != [(f, l) for f, l in locs]:
            self.bad(tag + ":locations", "location lines of the HTML page differ from the records", locs[:4], got[:4])
        if hl and exceptions.pygments_html_formatter:
            m = _HL.search(out)
            if not m or int(m.group(1)) != hl:
                self.bad(tag + ":highlight", "highlighted source line is not the innermost template line", hl, m.group(1) if m else None)
        return got

    # ---- format_exceptions
    def check_fmtexc(self, out, b, chain):
        self.st.oracles["format_exceptions"] += 1
        name2uri = {}
        for uri, ns in b.names.items():
            for n in ns:
                name2uri[n] = uri
        got = self.check_html(out, None, None, "fmtexc")
        obs = [(name2uri[f], l) for f, l in got if f in name2uri][::-1]
        if not match_chain(chain, obs):
            sig, txt = chain_sig(chain, obs, self.nlines)
            self.bad(sig, "format_exceptions page: " + txt, [[e["uri"], e["lines"]] for e in chain], obs)
        elif obs:
            self.check_html(out, None, obs[-1][1], "fmtexc")


def api_forms(e, html):
    """the documented ways to ask for the current error, called inside the except block that handles it"""
    from mako import exceptions

    out = {}

    def tryit(name, fn):
        try:
            out[name] = ("ok", fn())
        except BaseException as x:  # noqa
            out[name] = ("raises", "%s: %s" % (type(x).__name__, str(x)[:200]))

    tryit("RichTraceback()", lambda: list(exceptions.RichTraceback().records))
    tryit("RichTraceback(error=class)", lambda: list(exceptions.RichTraceback(error=type(e), traceback=None).records))
    tryit("text(error=instance)", lambda: _text_template().render_unicode(error=e, traceback=None))
    tryit("text(error=class)", lambda: _text_template().render_unicode(error=type(e), traceback=None))
    if html:
        tryit("html(error=class)", lambda: _html_template().render_unicode(error=type(e), traceback=None))
    return out


def _norm(s):
    return [l.rstrip() for l in s.strip("\n").split("\n")]


_TT = {}


def _text_template():
    from mako import exceptions

    k = ("t", os.getpid())
    if k not in _TT:
        _TT[k] = exceptions.text_error_template()
    return _TT[k]


def _html_template():
    from mako import exceptions

    k = ("h", os.getpid())
    if k not in _TT:
        _TT[k] = exceptions.html_error_template()
    return _TT[k]


# --------------------------------------------------------------------------
# one execution


# a construction that raises inside Mako's hooked blocks: (template text, warning filter action)
BROKEN = {
    "import-error": ("<%!\n    import module_that_does_not_exist_c12\n%>\nhello\n", "always"),
    "module-syntax-error": ("hello\n<% break %>\n", "always"),  # accepted by the expression parser, refused by compile()
    "warning-as-error-compile": ("hello\n${1 is 1}\n", "error"),  # raised while the module is compiled
    "warning-as-error-parse": ("hello\n${'\\d'}\n", "error"),  # raised while the expression is parsed
}
HIST_RAISE = ["r_expr", "r_code2", "r_modtop"]
HIST_WARN = ["w_expr", "w_code2", "w_mod", "w_modwarn"]
RETRY_WARN = ["w_expr", "w_is", "w_mexpr", "w_code2", "w_ctl", "w_mod", "w_modwarn"]
RELOADS = ["checks", "newlookup"]


def planted_of(rec, st):
    planted = []
    for w in rec:
        cat = w.category.__name__
        if cat == "SyntaxWarning" or "planted" in str(w.message):
            planted.append((cat, str(w.message), w.filename, w.lineno))
        else:
            st.extra["other_warnings"] = st.extra.get("other_warnings", 0) + 1
    return planted


def closure_in_block(low, site):
    anc = low.positions[site]["anc"] if site is not None else []
    return any(
        k in ("ablock", "block") and any(x in ("defb", "defa", "defbuf", "ablock") for x in anc[i + 1:])
        for i, k in enumerate(anc)
    )


def judge_shown(ck, planted, expected, names, kind, path, low, site, pfx=""):
    """the planted literal must be shown exactly once, under the template's name, at its line"""
    if len(planted) != len(expected):
        pos = low.positions[site] if site is not None else {"ctl": 0, "anc": []}
        closure_in_anon = closure_in_block(low, site)
        if kind in c12_ir.TOP_ONLY_PLANTS and pos["ctl"] and len(planted) > 1:
            sig = "warn:module-block-inside-control-structure:shown-%dx" % len(planted)
        elif closure_in_anon and len(planted) > 1:
            sig = "warn:closure-nested-in-block-emitted-twice:shown-%dx" % len(planted)
        else:
            sig = pfx + "warn:%s:count=%d" % (kind, len(planted))
        ck.bad(sig, "planted literal is shown %d times instead of once" % len(planted), expected, planted)
        return
    for (uri, lines, cat, msg), (ocat, omsg, ofn, oln) in zip(expected, planted):
        if ocat != cat or msg not in omsg:
            ck.bad(pfx + "warn:%s:other-warning" % kind, "another warning than the planted one", [cat, msg], [ocat, omsg])
        if ofn not in names.get(uri, ()):
            ck.bad(pfx + "warn:%s:filename:%s" % (kind, path), "warning shown against a name that is neither the template's filename nor its URI", sorted(names.get(uri, ())), ofn)
        if oln not in lines:
            rel = "before" if oln < min(lines) else "after"
            ck.bad(pfx + "warn:%s:line:%s" % (kind, rel), "warning shown against another line than the planted one", lines, oln)


def coarse(sig):
    """footprint of a history-dependent failure: drop the frame / plant kind, keep oracle and direction"""
    parts = sig.split(":")
    if parts[:2] == ["tb", "line"] and len(parts) == 4:
        return "tb:line:" + parts[3]
    if parts[0] == "warn" and len(parts) >= 3:
        return "warn:" + ":".join(parts[2:])
    return sig


def judge_stale_magic(ck, planted, expected, names, kind, path, low, site):
    """the module file is imported, found to be another release's, written again and imported again: the literal's
    warning is emitted once or twice (the count is not fixed by the statement); every showing must be located"""
    pfx = "stalemagic:"
    uri, lines, cat, msg = expected[0]
    if len(planted) > 2 and closure_in_block(low, site):
        # the known double emission of a closure nested in a block, once per import
        ck.bad("warn:closure-nested-in-block-emitted-twice:shown-%dx" % len(planted), "planted literal is shown %d times" % len(planted), expected, planted)
        return
    if not 1 <= len(planted) <= 2:
        ck.bad(pfx + "warn:count=%d" % len(planted), "planted literal is shown %d times" % len(planted), expected, planted)
        return
    for i, (ocat, omsg, ofn, oln) in enumerate(planted):
        which = "first" if i == 0 else "second"
        if ocat != cat or msg not in omsg:
            ck.bad(pfx + "warn:other-warning", "another warning than the planted one", [cat, msg], [ocat, omsg])
        if ofn not in names.get(uri, ()):
            ck.bad(pfx + "warn:filename:%s-import:%s" % (which, path), "warning of the %s import shown against a name that is neither the template's filename nor its URI" % which, sorted(names.get(uri, ())), ofn)
        elif oln not in lines:
            ck.bad(pfx + "warn:line:%s-import:%s" % (which, path), "warning of the %s import shown against another line than the planted one" % which, lines, oln)


def hook_check(ck, st, before, when):
    """universal: Template construction / render leaves warnings.showwarning as it found it"""
    st.oracles["showwarning_restored"] += 1
    if warnings.showwarning is not before:
        ck.bad("hook:showwarning-not-restored:" + when, "warnings.showwarning is not the hook that was installed before", repr(before)[:80], repr(warnings.showwarning)[:120])
        return False
    return True


class Runner:
    def __init__(self, st, seed):
        self.st = st
        self.seed = seed
        self.root = core.scratch_dir("c12")
        self.n = 0
        self.ctx = c12_env.base_ctx(seed)
        self.rctx = c12_env.resolve_ctx(self.ctx)
        self.allpaths_both = True  # rotated scheme: the principal kinds on all paths (thorough only)
        sys.dont_write_bytecode = True

    def casedir(self):
        self.n += 1
        d = os.path.join(self.root, "k%d" % self.n)
        os.mkdir(d)
        return d

    def report(self, ck, case, oracle):
        for sig, text, exp, obs in ck.viol:
            if sig.startswith("outcome:") and not sig.startswith("outcome:output"):
                # kept in the evidence even if the candidate later turns out not to be reproducible
                self.st.extra.setdefault("outcome_anomalies", []).append(
                    "%s | %s | pid=%d | %s" % (sig, str(obs)[:2200], os.getpid(), str(core.jsonable(case))[:400])
                )
            self.st.violation(sig, case, oracle + ": " + text, expected=core.jsonable(exp), observed=core.jsonable(obs))

    # ---- raise / plain
    def run_raise(self, body, nl, site, kind, path, mode="plain", ref=None, low=None):
        """mode: plain | html | fmtexc.  returns outcome label"""
        import linecache

        st = self.st
        if low is None:
            low = c12_ir.lower(body, nl, kind, site, self.seed)
        if ref is None:
            ref = c12_ir.reference(low, self.ctx)
        case = {"mode": "raise", "body": body, "nl": nl, "site": site, "kind": kind, "path": path, "check": mode, "seed": self.seed}
        ck = Checker(low, st)
        d = self.casedir()
        st.evaluations += 1
        st.traces += 1
        st.transitions += 1
        b = None
        out = None
        err = tb = None
        forms = None
        hook0 = warnings.showwarning
        try:
            try:
                b = build(low, path, d, {"format_exceptions": True} if mode == "fmtexc" else None)
                out = b.main.render_unicode(**self.rctx)
            except BaseException as e:  # noqa  (a planted BaseException is an expected outcome)
                err, tb = e, e.__traceback__
                if mode != "fmtexc" and b is not None and (kind in PRINCIPAL or kind == "r_base"):
                    forms = api_forms(e, mode == "html")
            if not hook_check(ck, st, hook0, "after-failed-construction" if b is None else "after-render"):
                warnings.showwarning = hook0
            st.oracles["outcome"] += 1
            if ref[0] == "ok":
                label = "ok"
                if err is not None:
                    ck.bad("outcome:unexpected-exception:" + type(err).__name__, "program without a reachable failure raises", ref[1][:200],
                           repr(err)[:300] + " || " + "".join(traceback.format_exception(type(err), err, tb))[-1800:])
                elif out != ref[1]:
                    ck.bad("outcome:output", "rendered output differs from the reference", ref[1][:300], out[:300])
            elif mode == "fmtexc":
                label = "fmtexc"
                if err is not None:
                    ck.bad("fmtexc:raises", "format_exceptions=True lets the exception out", None, repr(err)[:300])
                else:
                    ck.check_fmtexc(out, b, ref[2])
            else:
                exc, chain = ref[1], ref[2]
                label = "tb:" + ">".join(e["kind"] for e in chain)
                if err is None:
                    ck.bad("outcome:no-exception", "planted failure did not come out of render", repr(exc), (out or "")[:200])
                elif b is None or type(err).__name__ != type(exc).__name__ or str(err) != str(exc):
                    ck.bad("outcome:other-exception:" + type(err).__name__, "another exception than the planted one", repr(exc), repr(err)[:300])
                else:
                    ck.check_tb(err, tb, b, chain, path, mode == "html", forms)
        finally:
            if b is not None and getattr(b, "templates", None):
                for t in b.templates.values():
                    try:
                        linecache.cache.pop(t.module.render_body.__code__.co_filename, None)
                    except AttributeError:
                        pass
            err = tb = None
            shutil.rmtree(d, ignore_errors=True)
        st.outcomes[label] += 1
        if st.evaluations % 1499 == 1:
            st.sample({"case": case, "files": low.files, "outcome": label, "expected_chain": ref[2] if ref[0] == "raise" else None})
        self.report(ck, case, "traceback")
        return label

    # ---- warnings
    def run_warn(self, body, nl, site, kind, path, action, low=None, ref=None):
        st = self.st
        if low is None:
            low = c12_ir.lower(body, nl, kind, site, self.seed)
        if ref is None:
            ref = c12_ir.reference(low, self.ctx)
        case = {"mode": "warn", "body": body, "nl": nl, "site": site, "kind": kind, "path": path, "action": action, "seed": self.seed}
        ck = Checker(low, st)
        d = self.casedir()
        st.evaluations += 1
        st.traces += 1
        st.transitions += 1
        expected = low.plant_info["warn"]
        err = None
        out = None
        b = None
        try:
            with warnings.catch_warnings(record=True) as rec:
                warnings.resetwarnings()
                warnings.simplefilter(action)
                warnings.onceregistry.clear()
                hook0 = warnings.showwarning
                try:
                    b = build(low, path, d)
                    out = b.main.render_unicode(**self.rctx)
                except Exception as e:  # noqa
                    err = e
                hook_check(ck, st, hook0, "after-exception" if err is not None else "after-render")
            names = b.names if b is not None else None
            planted = planted_of(rec, st)
            st.oracles["warnings"] += 1
            if action == "error":
                label = "warn-error:" + type(err).__name__
                if err is None and kind == "w_defdefault" and path in ("moddir2", "modshared"):
                    st.oracles["warn_dontcare_reopen"] += 1
                elif err is None:
                    ck.bad("warn:%s:error-not-raised" % kind, "filter action 'error' but construction and render succeed", None, planted)
                else:
                    if planted:
                        ck.bad("warn:%s:error-also-shown" % kind, "warning shown although it was turned into an exception", [], planted)
                    if type(err).__module__ == "mako.exceptions" and hasattr(err, "lineno"):
                        st.oracles["warn_error_line"] += 1
                        if err.lineno not in expected[0][1]:
                            ck.bad("warn:%s:error-line" % kind, "Mako exception for the literal carries another line", expected[0][1], err.lineno)
            else:
                label = "warn:%d" % len(planted)
                if err is not None:
                    ck.bad("warn:%s:exception:%s" % (kind, type(err).__name__), "construction/render fails although warnings are not errors", None, repr(err)[:300])
                else:
                    if ref[0] == "ok" and out != ref[1]:
                        ck.bad("outcome:output", "rendered output differs from the reference", ref[1][:300], out[:300])
                    if path in MAGIC_PATHS:
                        judge_stale_magic(ck, planted, expected, names, kind, path, low, site)
                    elif kind == "w_defdefault" and path in ("moddir2", "modshared"):
                        # the template is not compiled again; whether CPython repeats the warning for the module
                        # file depends on the literal surviving verbatim in it: not fixed by the statement
                        st.oracles["warn_dontcare_reopen"] += 1
                    else:
                        judge_shown(ck, planted, expected, names, kind, path, low, site)
        finally:
            shutil.rmtree(d, ignore_errors=True)
        st.outcomes[label] += 1
        if st.evaluations % 1499 == 1:
            st.sample({"case": case, "files": low.files, "outcome": label, "expected_warnings": expected})
        self.report(ck, case, "warnings")
        return label

    # ---- history: a module-directory template is edited and loaded again in the same process
    def run_hist(self, body, nl, site, kind, reload, k=2):
        """version 1 -> observe -> what version 1 left behind aged by 10 s, every file rewritten with k lines inserted at its top -> reloaded in the
        same process (reload = 'checks': same TemplateLookup with filesystem_checks; 'newlookup': a new TemplateLookup on
        the same module directory) -> observe again.  Each observation must map to its own version's lines."""
        import linecache

        from mako.lookup import TemplateLookup

        st = self.st
        case = {"mode": "hist", "body": body, "nl": nl, "site": site, "kind": kind, "reload": reload, "k": k, "seed": self.seed}
        is_warn = kind in c12_ir.WARN_KINDS
        d = self.casedir()
        m = os.path.join(d, "_mods")
        st.traces += 1
        labels = []
        sigs1 = set()
        viol = []
        lk = None
        popped = set()
        try:
            for step, prefix in ((1, 0), (2, k)):
                low = c12_ir.lower(body, nl, kind, site, self.seed, prefix)
                ref = c12_ir.reference(low, self.ctx)
                ck = Checker(low, st)
                if step == 2:
                    # "ten seconds pass" between the two versions: everything version 1 left behind is aged instead of
                    # stamping version 2 into the future (a template newer than the clock is recompiled at every access)
                    old = time.time() - 10
                    for root, _dirs, fns in os.walk(m):
                        for fn in fns:
                            os.utime(os.path.join(root, fn), (old, old))
                    for t in list(lk._collection.values()):
                        t.module._modified_time -= 10
                _write_files(low, d)
                if lk is None or (step == 2 and reload == "newlookup"):
                    lk = TemplateLookup(directories=[d], module_directory=m, filesystem_checks=True)
                b = Built()
                b.lookup = lk
                b.names = {uri: {d + uri, uri} for uri in low.files}
                st.evaluations += 1
                st.transitions += 1
                err = tb = out = None
                hook0 = warnings.showwarning
                if is_warn:
                    with warnings.catch_warnings(record=True) as rec:
                        warnings.resetwarnings()
                        warnings.simplefilter("always")
                        hook0 = warnings.showwarning
                        try:
                            b.main = lk.get_template(low.main)
                            out = b.main.render_unicode(**self.rctx)
                        except Exception as e:  # noqa
                            err = e
                        hook_check(ck, st, hook0, "after-reload")
                    st.oracles["warnings"] += 1
                    if err is not None:
                        ck.bad("warn:%s:exception:%s" % (kind, type(err).__name__), "construction/render fails although warnings are not errors", None, repr(err)[:300])
                    else:
                        if ref[0] == "ok" and out != ref[1]:
                            ck.bad("outcome:output", "rendered output differs from the reference", ref[1][:300], out[:300])
                        judge_shown(ck, planted_of(rec, st), low.plant_info["warn"], b.names, kind, "moddir", low, site)
                    labels.append("warn")
                else:
                    try:
                        b.main = lk.get_template(low.main)
                        out = b.main.render_unicode(**self.rctx)
                    except Exception as e:  # noqa
                        err, tb = e, e.__traceback__
                    if not hook_check(ck, st, hook0, "after-reload"):
                        warnings.showwarning = hook0
                    st.oracles["outcome"] += 1
                    if ref[0] == "ok":
                        labels.append("ok")
                        if err is not None:
                            ck.bad("outcome:unexpected-exception:" + type(err).__name__, "program without a reachable failure raises", ref[1][:200], repr(err)[:300])
                        elif out != ref[1]:
                            ck.bad("outcome:output", "rendered output differs from the reference", ref[1][:300], out[:300])
                    else:
                        exc, chain = ref[1], ref[2]
                        labels.append("tb:" + ">".join(e["kind"] for e in chain))
                        if err is None:
                            ck.bad("outcome:no-exception", "planted failure did not come out of render", repr(exc), (out or "")[:200])
                        elif type(err).__name__ != type(exc).__name__ or str(err) != str(exc) or not hasattr(b, "main"):
                            ck.bad("outcome:other-exception:" + type(err).__name__, "another exception than the planted one", repr(exc), repr(err)[:300])
                        else:
                            ck.check_tb(err, tb, b, chain, "moddir", False)
                            for t in b.templates.values():
                                popped.add(t.module.render_body.__code__.co_filename)
                    err = tb = None
                for sig, text, exp, obs in ck.viol:
                    if step == 1:
                        sigs1.add(sig)
                        viol.append((sig, "version 1: " + text, exp, obs))
                    elif sig in sigs1:
                        viol.append((sig, "version 2: " + text, exp, obs))
                    else:
                        # holds for version 1, fails for the edited version loaded in the same process
                        viol.append(("recompiled:" + coarse(sig), "after the template was edited and loaded again (%s): %s" % (reload, text), exp, obs))
        finally:
            for fn in popped:
                linecache.cache.pop(fn, None)
            shutil.rmtree(d, ignore_errors=True)
        st.outcomes["hist:" + "/".join(labels)] += 1
        for sig, text, exp, obs in viol:
            st.violation(sig, case, "recompiled module file: " + text, expected=core.jsonable(exp), observed=core.jsonable(obs))

    # ---- a construction that raises, then a warning-emitting template under the same URI
    def run_retry(self, body, nl, site, kind, way):
        from mako.lookup import TemplateLookup

        st = self.st
        low = c12_ir.lower(body, nl, kind, site, self.seed)
        if len(low.files) != 1:
            return None
        ref = c12_ir.reference(low, self.ctx)
        case = {"mode": "retry", "body": body, "nl": nl, "site": site, "kind": kind, "way": way, "seed": self.seed}
        ck = Checker(low, st)
        broken, action = BROKEN[way]
        uri = "home"  # word characters only: the module id of a string template equals this name
        st.evaluations += 2
        st.transitions += 2
        st.traces += 1
        err1 = err2 = out = None
        with warnings.catch_warnings(record=True) as rec:
            warnings.resetwarnings()
            warnings.simplefilter(action)
            warnings.onceregistry.clear()
            hook0 = warnings.showwarning
            lk = TemplateLookup()
            try:
                lk.put_string(uri, broken.replace("\n", nl))
            except Exception as e:  # noqa
                err1 = e
            # deliberately not repaired here: the second construction runs in whatever state the first one left
            hook_check(ck, st, hook0, "after-failed-construction")
            del rec[:]
            warnings.resetwarnings()
            warnings.simplefilter("always")
            warnings.onceregistry.clear()
            try:
                lk.put_string(uri, low.files[low.main])
                out = lk.get_template(uri).render_unicode(**self.rctx)
            except Exception as e:  # noqa
                err2 = e
            st.oracles["showwarning_restored"] += 1
            if warnings.showwarning is not hook0 and not ck.viol:
                ck.bad("hook:showwarning-not-restored:after-render", "warnings.showwarning is not the hook that was installed before", None, repr(warnings.showwarning)[:120])
            planted = planted_of(rec, st)
        st.oracles["warnings"] += 1
        label = "retry:%s:%s" % (way, type(err1).__name__)
        pfx = "retry:%s:" % way
        if err1 is None:
            st.extra["retry_first_did_not_fail"] = st.extra.get("retry_first_did_not_fail", 0) + 1
        if err2 is not None:
            ck.bad(pfx + "warn:%s:exception:%s" % (kind, type(err2).__name__), "the corrected template fails", None, repr(err2)[:300])
        else:
            if ref[0] == "ok" and out != ref[1]:
                ck.bad("outcome:output", "rendered output differs from the reference", ref[1][:300], out[:300])
            judge_shown(ck, planted, low.plant_info["warn"], {low.main: {uri}}, kind, "string", low, site, pfx)
        st.outcomes[label] += 1
        for sig, text, exp, obs in ck.viol:
            if sig.startswith(pfx):
                sig = pfx + coarse(sig[len(pfx):])
            st.violation(sig, case, "failed construction then retry (%s): %s" % (way, text), expected=core.jsonable(exp), observed=core.jsonable(obs))
        return label



# --------------------------------------------------------------------------
# enumeration


def tier_spec(tier):
    """list of groups: (name, weights, kinds, nls, scheme) ; scheme in full|rotated|warn"""
    A = c12_ir.ALL_KINDS
    C = CORE_KINDS
    Q = QUICK2_KINDS
    if tier == "quick":
        return [
            ("rot-w2", [2], Q, ["\n"], "rotated"),
            ("full-w1", [0, 1], A, ["\n"], "full"),
            ("rot-w1-crlf", [0, 1], A, ["\r\n"], "rotated"),
            ("warn-w1", [0, 1], A, ["\n"], "warn"),
            ("warn-w2-closures", [2], ["ablock", "defb"], ["\n"], "warn"),
            ("hist-w1", [0, 1], A, ["\n"], "hist"),
            ("retry-w1", [0, 1], A, ["\n"], "retry"),
            ("rot-w2-text-chain", [2], ["t1", "include", "inh"], ["\n"], "rotated"),
            ("long", ["long", "quick"], A, ["\n"], "long"),
        ]
    return [
        ("full-w2", [0, 1, 2], A, ["\n"], "full"),
        ("rot-w3", [3], W3_KINDS, ["\n"], "rotated"),
        ("rot-w2-crlf", [0, 1, 2], C, ["\r\n"], "rotated"),
        ("warn-w1", [0, 1], A, ["\n"], "warn"),
        ("warn-w2", [2], WARN2_KINDS, ["\n"], "warn"),
        ("warn-w1-crlf", [0, 1], A, ["\r\n"], "warn"),
        ("hist-w2", [0, 1, 2], Q + ["mod", "ablock", "inh"], ["\n"], "hist"),
        ("hist-w1", [1], A, ["\n", "\r\n"], "hist"),
        ("retry-w2", [0, 1, 2], Q + ["mod", "ablock", "inh"], ["\n"], "retry"),
        ("retry-w1", [1], A, ["\n"], "retry"),
        ("long", ["long", "thorough"], A, ["\n", "\r\n"], "long"),
    ]


LONG_PADS = {"quick": [(45, 3)], "thorough": [(45, 3), (40, 30), (480, 3)]}
LONG_FILL = ["e", "c1"]


def long_programs(kinds, pads):
    """a weight-1 program behind `before` and ahead of `after` one-line fillers: the generated module passes 100
    (thorough: 1000) lines, so that module line numbers of different widths meet in one line map"""
    out = []
    for before, after in pads:
        for fill in LONG_FILL:
            for p in c12_ir.programs(1, kinds):
                if p[0][0] in ("pg", "inh", "inhs"):
                    body = tuple(p) + ((fill,),) * before + ((fill,),) * after
                    at = 0
                else:
                    body = ((fill,),) * before + tuple(p) + ((fill,),) * after
                    at = before
                out.append((body, before, at))
    return out


def group_programs(weights, kinds):
    if weights and weights[0] == "long":
        return [b for b, _, _ in long_programs(kinds, LONG_PADS[weights[1]])]
    out = []
    for w in weights:
        out.extend(c12_ir.programs(w, kinds))
    return out


def plan(tier, seed):
    jobs = []
    for gi, (name, weights, kinds, nls, scheme) in enumerate(tier_spec(tier)):
        n = len(group_programs(weights, kinds))
        per = {"full": 6, "rotated": 12, "hist": 3, "retry": 6}.get(scheme, 4)
        if tier == "thorough":
            per = max(2, per // 2)
        ns = max(1, min(96, (n + per - 1) // per))
        for sh in range(ns):
            jobs.append({"tier": tier, "seed": seed, "group": gi, "shard": sh, "nshards": ns})
    # biggest groups first, interleaved by shard, so that the pool stays busy
    jobs.sort(key=lambda j: (j["shard"], j["group"]))
    return jobs


def run_job(job):
    st = Stats()
    t0 = time.process_time()
    w0 = time.time()
    name, weights, kinds, nls, scheme = tier_spec(job["tier"])[job["group"]]
    progs = group_programs(weights, kinds)
    r = Runner(st, job["seed"])
    r.allpaths_both = job["tier"] != "quick"
    try:
        for pi in range(job["shard"], len(progs), job["nshards"]):
            for nl in nls:
                run_program(r, progs[pi], pi, nl, scheme)
    finally:
        shutil.rmtree(r.root, ignore_errors=True)
    st.extra["cpu_s_" + name] = round(time.process_time() - t0, 2)
    st.extra["programs_" + name] = len(range(job["shard"], len(progs), job["nshards"])) * len(nls)
    st.extra["worker_wall_s"] = round(time.time() - w0, 2)
    return st


def run_program(r, body, pi, nl, scheme):
    st = r.st
    seed = r.seed
    dry = c12_ir.lower(body, nl, None, None, seed)
    npos = len(dry.positions)
    # the unplanted program: output on every path (validates the reference as well)
    ref0 = c12_ir.reference(dry, r.ctx)
    if scheme in ("hist", "retry"):
        for si in range(npos):
            top = dry.positions[si]["top"]
            kinds = (HIST_RAISE + HIST_WARN) if scheme == "hist" else RETRY_WARN
            for kind in kinds:
                if kind in c12_ir.TOP_ONLY_PLANTS and not top:
                    continue
                if scheme == "hist":
                    for reload in RELOADS:
                        st.states += 1
                        st.nontrivial += 1
                        r.run_hist(body, nl, si, kind, reload)
                else:
                    for way in BROKEN:
                        if r.run_retry(body, nl, si, kind, way) is not None:
                            st.states += 1
                            st.nontrivial += 1
        return
    if scheme == "long":
        # positions: the first filler, one in the middle, the last before the program, the program's own, the last one
        n_fill = sum(1 for it in body if len(it) == 1 and it[0] in LONG_FILL)
        first_prog = next((i for i, it in enumerate(body) if not (len(it) == 1 and it[0] in LONG_FILL)), 0)
        tops = [i for i in range(npos) if dry.positions[i]["top"]]
        sel = sorted({0, 1, npos // 2, max(0, first_prog - 1), first_prog, min(npos - 1, first_prog + 1), npos - 2, npos - 1} & set(range(npos)))
        st.states += 1
        r.run_raise(body, nl, None, None, PATHS[pi % len(PATHS)], low=dry, ref=ref0)
        for si in sel:
            top = dry.positions[si]["top"]
            rot = (pi + si) % len(PATHS)
            for ki, kind in enumerate(PRINCIPAL):
                low = c12_ir.lower(body, nl, kind, si, seed)
                ref = c12_ir.reference(low, r.ctx)
                st.states += 1
                st.nontrivial += 1
                for path in (PATHS[(rot + ki) % len(PATHS)], PATHS[(rot + ki + 3) % len(PATHS)]):
                    r.run_raise(body, nl, si, kind, path, "html" if ki == 0 else "plain", ref=ref, low=low)
            for ki, kind in enumerate(["w_expr", "w_code2"]):
                low = c12_ir.lower(body, nl, kind, si, seed)
                ref = c12_ir.reference(low, r.ctx)
                st.states += 1
                st.nontrivial += 1
                r.run_warn(body, nl, si, kind, PATHS[(rot + ki + 1) % len(PATHS)], "always", low=low, ref=ref)
        return
    if scheme != "warn":
        st.states += 1
        for path in PATHS:
            r.run_raise(body, nl, None, None, path, low=dry, ref=ref0)
    for si in range(npos):
        top = dry.positions[si]["top"]
        if scheme == "warn":
            for kind in c12_ir.WARN_KINDS:
                if kind in c12_ir.TOP_ONLY_PLANTS and not top:
                    continue
                low = c12_ir.lower(body, nl, kind, si, seed)
                ref = c12_ir.reference(low, r.ctx)
                st.states += 1
                if low.plant_info["warn"][0][1][0] > 1:
                    st.nontrivial += 1
                for pj, path in enumerate(PATHS + MAGIC_PATHS):
                    if path in MAGIC_PATHS and kind == "w_defdefault":
                        continue  # the regenerated signature carries no literal: nothing to observe on these routes
                    for action in ACTIONS:
                        if action == "once" and not r.allpaths_both and pj != (pi + si) % len(PATHS):
                            continue
                        r.run_warn(body, nl, si, kind, path, action, low=low, ref=ref)
            continue
        rot = (pi + si) % len(PATHS)
        for ki, kind in enumerate(c12_ir.RAISE_KINDS):
            low = c12_ir.lower(body, nl, kind, si, seed)
            ref = c12_ir.reference(low, r.ctx)
            st.states += 1
            if ref[0] == "raise" and (low.plant_info["line"] > 1 or len(ref[2]) > 1):
                st.nontrivial += 1
            principal = kind in PRINCIPAL
            if scheme == "full" or (principal and r.allpaths_both):
                paths = PATHS
            else:
                paths = [PATHS[(rot + ki) % len(PATHS)]]
            for path in paths:
                r.run_raise(body, nl, si, kind, path, "html" if principal and path == PATHS[rot] else "plain", ref=ref, low=low)
            if kind == "r_expr":
                r.run_raise(body, nl, si, kind, PATHS[rot], "fmtexc", ref=ref, low=low)
            elif kind == "r_base":
                # format_exceptions=True: errors that are not Exception subclasses reach the error page by another route
                for path in (PATHS if scheme == "full" else [PATHS[rot]]):
                    r.run_raise(body, nl, si, kind, path, "fmtexc", ref=ref, low=low)


def replay(case):
    st = Stats()
    r = Runner(st, case.get("seed", 0))
    try:
        body = c12_ir.to_tuple(case["body"])
        if case["mode"] == "warn":
            r.run_warn(body, case["nl"], case["site"], case["kind"], case["path"], case["action"])
        elif case["mode"] == "hist":
            r.run_hist(body, case["nl"], case["site"], case["kind"], case["reload"], case.get("k", 2))
        elif case["mode"] == "retry":
            r.run_retry(body, case["nl"], case["site"], case["kind"], case["way"])
        else:
            r.run_raise(body, case["nl"], case["site"], case["kind"], case["path"], case.get("check", "plain"))
    finally:
        shutil.rmtree(r.root, ignore_errors=True)
    if st.violations:
        return False, "reproduced: %r" % (st.violations[0],)
    return True, "holds"


# --------------------------------------------------------------------------
# corpus for the cross-path property


def corpus(limit=400):
    """representative unplanted programs of the smallest non-trivial bound (weight <= 2), simplest
    first, spread over all construct kinds; expected output from the reference interpreter."""
    ctx = c12_env.base_ctx(0)
    progs = []
    for w in (1, 2):
        ps = list(c12_ir.programs(w, c12_ir.ALL_KINDS))
        if w == 2:
            # round-robin over the first kind so that a prefix of the list covers every kind
            buckets = collections.OrderedDict()
            for p in ps:
                buckets.setdefault((p[0][0], len(p)), []).append(p)
            ps = []
            while buckets:
                for k in list(buckets):
                    ps.append(buckets[k].pop(0))
                    if not buckets[k]:
                        del buckets[k]
        progs.extend(ps)
    out = []
    for body in progs:
        if len(out) >= limit:
            break
        low = c12_ir.lower(body, "\n", None, None, 0, 0, c12_env.PLAIN_WORD)
        ref = c12_ir.reference(low, ctx)
        out.append(
            {
                "files": dict(low.files),
                "main": low.main,
                "ctx": dict(ctx),
                "expected": ref[1] if ref[0] == "ok" else None,
                "template_kwargs": {},
            }
        )
    return out
