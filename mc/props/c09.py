"""C09 - template lookup never escapes its configured directories.

Engine E1: a scratch tree with uniquely marked files inside and outside the
configured roots; EVERY URI of <= n segments over the traversal alphabet x
separator spellings x prefixes x suffixes (plus an absolute-path family) is
passed to the real TemplateLookup - directly (get_template / has_template) and
through <%include>, <%inherit>, <%namespace>, Namespace.get_template and
Namespace.get_namespace from calling templates at directory depth 0..3 - under
several root spellings with module_directory on and off.  Independent oracles:
returned filenames, audited file-system events, markers in output / exception
text, a reference depth-counter automaton, and a snapshot of the tree.
"""

import itertools
import os
import re
import sys
import zlib

from mc import core
from mc.core import Stats

PROPERTY = "C09"
LEVEL = "model_checking"
ENGINE = "E1"
TECHNIQUE = (
    "bounded exhaustive enumeration of URI spellings x access forms x caller depths x lookup configurations on the "
    "real TemplateLookup over a marked scratch tree; audited file events, returned filenames, output markers, a "
    "reference depth-counter automaton and a tree snapshot as oracles"
)
RULE = (
    "case = (lookup configuration, access form, caller depth, URI string). URIs: every sequence of <=n segments over "
    "{name, dir, '..', '.', empty, '..name', 'dir..', secret, outsidedir} joined by every separator assignment over "
    "{'/', '//', '\\', '\\/'} (n<=mix_n) or by the 5 separator patterns (all '/', all '//', all '\\', alternating "
    "'/\\', alternating '\\/') with each prefix in {'', '/', '//', '\\', '\\\\', '/\\'} and suffix in {'', '/'}; plus "
    "the absolute-path family prefix + [empty segment] + <absolute path of the scratch tree, '/' or '\\' separated> + <=k alphabet segments "
    "(5 separator patterns). Canonical = the "
    "URI string (de-duplicated), so distinct cases = distinct (config, form, depth, string). Non-trivial = the "
    "reference walk of the URI steps above a configured root at least once (for some admissible interpretation), "
    "or the URI spells an absolute file-system path. "
    "LOOK-ALIKE FAMILY: segments {name, dir, secret, outsidedir, '..', '.', full-width name} with '..' spelled U+2025, "
    "U+FF0E U+FF0E, U+2024 U+2024, U+FE52 U+FE52 or half-ASCII, '.' as U+FF0E, one separator of {/, \\, U+FF0F, U+FF3C, "
    "U+2215, U+29F8, U+FE68} throughout, optional leading separator, at least one non-ASCII character (the reference "
    "treats these characters as name characters: the URI then resolves inside, and the containment oracles decide). "
    "PROCESS AND LOOKUP SHARING: the worker never executes a lookup; each chunk of the grid (<=600/1200 URIs x the "
    "forms/depths of one configuration; one TemplateLookup per (form, depth); module_directory empty at its start) and "
    "each batch of two-call histories runs in its own child process forked from the worker (which has only compiled the "
    "five caller texts as in-memory templates) - a deliberate long history over process-wide state, module files and "
    "lookups. A case that fails there is re-executed in fresh child processes on a pristine tree: alone, then after one "
    "earlier call of its chunk (the preceding one, outside-resolving ones, the others; <=48), then after the whole chunk "
    "history, which is reduced by delta debugging; it is reported with the prelude it needs (each step names its lookup "
    "object), so every reported case replays. "
    "TWO-CALL HISTORIES (enumerated; each on a fresh lookup; the histories of a batch of 300 share process and "
    "module_directory): (a) for every u1 of <=k1 segments (spellings 'a/b', '/a/b', 'a\\b') that resolves outside every "
    "root and every u2 != u1 that is either any URI of <=k2 segments (spellings 'a/b', '/a/b', 'a\\b', '//a//b'; only "
    "when u1 names an existing outside file) or any URI of <=keq segments whose root-clamped normal form equals u1's: "
    "get_template(u1) then u2 through the form, and the reverse order; (b) alias histories: for every t of the grid "
    "spellings (<=n segments over the alphabet + '__') that resolves outside onto an existing file and every h of the same "
    "universe that does not resolve outside and whose spelling with every non-word character replaced by '_' equals that "
    "of t (as the form hands it to the lookup): get_template(h) then t through the form, and the reverse order. The tree "
    "holds inside twins for <name>, <outsidedir>/<name>, __/<name>, __/<secret> (file present) and none for <secret>, "
    "<outsidedir>/<secret> (file absent). distinct state = one history; both calls are judged by all oracles."
)
ASSUMPTIONS = [
    "no symbolic links are planted (not part of the statement); lexical and physical resolution then coincide for every path that exists",
    "a URI that leaves a root and re-enters a configured root may be served or refused (both satisfy the statement): oracle 4 is DONT_CARE there",
    "a URI starting with a backslash reached through a tag may be read as root-relative or caller-relative: oracle 4 demands refusal only if both readings resolve outside",
    "exceptions other than TemplateLookupException for URIs that do NOT resolve outside (e.g. IndexError for the empty URI in adjust_uri) are outside the statement: counted, not failed",
    "os.stat/os.path.isfile raise no audit event: probing the existence of an outside path is not observed (the statement speaks of content)",
    "audit events are recorded for open/os.*/shutil.*/tempfile.*; paths under sys.prefix, the python installation, the mako tree under test and /verif are whitelisted",
    "the quantifier's 'random longer ones' is not implemented: the deciding step is complete enumeration only",
    "state that outlives a call (lookup memo tables, module files) is covered by the enumerated two-call histories and, beyond that bound, only by the <=300-URI chunk histories of the grid; histories of three or more calls are not enumerated systematically",
    "order-dependent failures: per job at most 3 failing cases per worker signature are re-executed alone and at most 2 per (oracle, access class) get their prelude searched, within 25 s (the others are counted: violations_by_worker_signature, order_dependent_not_searched); their signature drops the spelling of the second URI and names the kind of earlier call needed",
    "every process first compiles the five caller texts as in-memory templates (no lookup, no file): part of every history, also in replay",
    "CPython os/posixpath, sys.addaudithook and the 30-line reference walker are trusted",
]
BOUNDS = {
    "quick": {
        "relroots": "two roots and a module directory spelled relatively to the current directory (2 x 4 x 3 spellings with ./, .., trailing separators) x 2 URIs x every history of <= 4 operations {fetch, remove / restore the file in root 1 / root 2} ending in a fetch, on one lookup, each in a child process with its own current directory",
        "n": 4,
        "mix_n": 3,
        "abs_tail": 2,
        "two_call_histories": "u2 by get_template: (k1,k2,keq)=(3,2,3) existing-file u1 and (2,2,2) all u1 on (abs, no modules); (3,2,3) existing-file u1 on (two "
        "roots, modules); u2 by has_template: (3,2,3) existing-file u1 on (abs, no modules); u2 by each of the five tag forms (caller depth 0): (3,1,2) "
        "existing-file u1 on (abs, no modules); both orders",
        "alias_histories": "t by get_template: n<=3 (mix<=2) on (abs, no modules), n<=2 on (two roots, modules); t by has_template and the five tag forms "
        "(caller depth 0): n<=2 on (abs, no modules); both orders",
        "look_alike_family": "get_template n<=3 on {(abs, no modules), (two roots, modules)}; <%include> depth 0..1 n<=3 and has_template + the other four "
        "tag forms depth 0..1 n<=2 on (abs, no modules)",
        "plan": "n = segments (pattern+abs families / separator-mix family). get_template: n<=4/3 on (abs root, no modules), n<=3/2 on all 8 "
        "configurations; has_template: n<=3/2 on (abs, no modules), n<=2/2 on all 8; <%include>: depth 1 n<=4/2, depth 0..3 n<=3/2 on (abs, no "
        "modules); inherit, namespace, ns.get_template, ns.get_namespace: depth 1 n<=3/2 on (abs, no modules); all five tag forms depth 0..3 "
        "n<=2/2 on {(abs, no modules), (two roots, modules)}",
    },
    "thorough": {
        "relroots": "3 x 5 x 4 spellings, histories of <= 5 operations",
        "n": 6,
        "mix_n": 4,
        "abs_tail": 3,
        "alias_histories": "t by get_template n<=3 (mix<=3) on (abs, no modules); has_template and <%include> n<=3 (mix<=2) on {(abs, no modules), (two roots, "
        "modules)}; all seven forms n<=2 on all 8 configurations; both orders",
        "look_alike_family": "get_template n<=4 on (abs, no modules), get_template/has_template n<=3 on all 8; five tag forms depth 0..2 n<=3 on {(abs, no "
        "modules), (two roots, modules)}",
        "two_call_histories": "u2 by get_template: (k1,k2,keq)=(3,3,3) all u1 and (4,2,4) existing-file u1 on (abs, no modules); get_template and has_template "
        "(3,2,3) existing-file u1 on all 8 configurations; five tag forms (caller depth 0) (3,2,2) existing-file u1 on {(abs, no modules), "
        "(two roots, modules)}; both orders",
        "plan": "get_template: n<=6/4 on (abs, no modules), n<=5/3 on (two roots, modules), n<=4/3 on all 8; has_template: n<=4/3 on (abs, no "
        "modules), n<=3/2 on all 8; <%include>: depth 2..3 n<=5/3, depth 0..1 n<=4/3 on (abs, no modules); the other four tag forms depth 0..3 "
        "n<=4/2 on (abs, no modules); all five tag forms depth 0..3 n<=3/2 on {(abs, no modules), (two roots, modules)} and n<=2/2 on all 8",
    },
}

NAME_POOL = ["a.html", "t.mako", "x.txt", "idx.htm"]
DIR_POOL = ["sub", "dir", "pkg", "d1"]
SECRET_POOL = ["secret.txt", "passwd", "key.pem", "id_rsa"]
OUT_POOL = ["outside", "etc", "priv", "ext"]

PREFIXES = ["", "/", "//", "\\", "\\\\", "/\\"]
SUFFIXES = ["", "/"]
MIX_SEPS = ["/", "//", "\\", "\\/"]

ROOT_KINDS = ["abs", "slash", "dot", "two"]
CONFIGS = [{"roots": r, "mods": m} for r in ROOT_KINDS for m in (False, True)]
# module paths chosen by the caller (modulename_callable), alone and together with a module directory
CONFIGS += [{"roots": "abs", "mods": "callable"}, {"roots": "two", "mods": "callable+dir"}]
TAG_FORMS = ["I", "X", "N", "A", "S"]
FORM_NAMES = {
    "G": "get_template",
    "H": "has_template",
    "I": "<%include>",
    "X": "<%inherit>",
    "N": "<%namespace>",
    "A": "Namespace.get_template",
    "S": "Namespace.get_namespace",
}
CALLER_SRC = {
    "I": "<%include file=\"${context['u']}\"/>",
    "X": "<%inherit file=\"${context['u']}\"/>caller-body",
    "N": "<%namespace name=\"n\" file=\"${context['u']}\"/>${n.body()}",
    "A": "${local.get_template(context['u']).render_unicode()}",
    "S": "${local.get_namespace(context['u']).body()}",
}


def cfg_id(roots, mods):
    if isinstance(mods, str):
        return [i for i, c in enumerate(CONFIGS) if c["roots"] == roots and c["mods"] == mods][0]
    return ROOT_KINDS.index(roots) * 2 + (1 if mods else 0)


ALL_CFG = list(range(10))
# plan rows: (forms, depths, config ids, max n for the pattern/abs families, max n for the separator-mix family)
_AO = cfg_id("abs", False)
_TM = cfg_id("two", True)
OTHER_TAGS = ["X", "N", "A", "S"]
PLANS = {
    "quick": [
        (["G"], [0], [_AO], 4, 3),
        (["G"], [0], ALL_CFG, 3, 2),
        (["H"], [0], [_AO], 3, 2),
        (["H"], [0], ALL_CFG, 2, 2),
        (["I"], [1], [_AO], 4, 2),
        (["I"], [0, 1, 2, 3], [_AO], 3, 2),
        (OTHER_TAGS, [1], [_AO], 3, 2),
        (TAG_FORMS, [0, 1, 2, 3], [_AO, _TM], 2, 2),
    ],
    "thorough": [
        (["G"], [0], [_AO], 6, 4),
        (["G"], [0], [_TM], 5, 3),
        (["G"], [0], ALL_CFG, 4, 3),
        (["H"], [0], [_AO], 4, 3),
        (["H"], [0], ALL_CFG, 3, 2),
        (["I"], [2, 3], [_AO], 5, 3),
        (["I"], [0, 1], [_AO], 4, 3),
        (OTHER_TAGS, [0, 1, 2, 3], [_AO], 4, 2),
        (TAG_FORMS, [0, 1, 2, 3], [_AO, _TM], 3, 2),
        (TAG_FORMS, [0, 1, 2, 3], ALL_CFG, 2, 2),
    ],
}


def names(seed):
    return {
        "N": NAME_POOL[seed % 4],
        "D": DIR_POOL[seed % 4],
        "S": SECRET_POOL[seed % 4],
        "O": OUT_POOL[seed % 4],
    }


def segments(seed):
    nm = names(seed)
    return [nm["N"], nm["D"], "..", ".", "", ".." + nm["N"], nm["D"] + "..", nm["S"], nm["O"]]


# --------------------------------------------------------------------------
# URI enumeration (deterministic, simplest first).  An URI is a *template
# string*: the absolute-path family carries the placeholder {ABS/} or {ABS\}
# which is replaced by the scratch tree's own absolute path at run time.

ABS_SLASH = "{ABS/}"
ABS_BACK = "{ABS\\}"


def _patterns(n):
    if n <= 1:
        return [()]
    g = n - 1
    return [
        ("/",) * g,
        ("//",) * g,
        ("\\",) * g,
        tuple("/" if i % 2 == 0 else "\\" for i in range(g)),
        tuple("\\" if i % 2 == 0 else "/" for i in range(g)),
    ]


def _join(segs, seps):
    out = [segs[0]]
    for i, s in enumerate(seps):
        out.append(s)
        out.append(segs[i + 1])
    return "".join(out)


def gen_uris(tier, seed, shard=0, nshards=1):
    """yield (uri_template, n, fam) for one shard.  n = number of segments
    (abs family: 1 + tail); fam 'pat' (5 separator patterns, and the
    absolute-path family) or 'mix' (every separator assignment).

    Two decompositions give the same string only if their sequences of
    non-empty segments coincide (segments contain no separator character), so
    sharding on that sequence keeps all duplicates of a string in one shard:
    local de-duplication is global de-duplication."""
    b = BOUNDS[tier]
    S = segments(seed)
    for n in range(1, b["n"] + 1):
        pats = _patterns(n)
        mixes = list(itertools.product(MIX_SEPS, repeat=n - 1)) if 1 < n <= b["mix_n"] else []
        mixes = [m for m in mixes if m not in set(pats)]
        for segs in itertools.product(S, repeat=n):
            key = "|".join(x for x in segs if x)
            if zlib.crc32(key.encode()) % nshards != shard:
                continue
            for fam, seplists in (("pat", pats), ("mix", mixes)):
                for seps in seplists:
                    body = _join(segs, seps)
                    for pre in PREFIXES:
                        for suf in SUFFIXES:
                            yield pre + body + suf, n, fam
        # absolute-path family: [empty segment] + <absolute path of the tree> + tail, n segments in all
        for lead in ((), ("",)):
            k = n - 1 - len(lead)
            if k < 0 or k > b["abs_tail"]:
                continue
            for segs in itertools.product(S, repeat=k):
                key = "ABS|" + "|".join(x for x in segs if x)
                if zlib.crc32(key.encode()) % nshards != shard:
                    continue
                for ab in (ABS_SLASH, ABS_BACK):
                    for seps in pats:
                        body = _join(lead + (ab,) + segs, seps)
                        for pre in PREFIXES:
                            for suf in SUFFIXES:
                                yield pre + body + suf, n, "pat"


def concrete(uri_t, T):
    if "{ABS" in uri_t:
        comps = [c for c in T.split("/") if c]
        uri_t = uri_t.replace(ABS_SLASH, "/".join(comps)).replace(ABS_BACK, "\\".join(comps))
    return uri_t


# --------------------------------------------------------------------------
# reference: depth-counter walk (independent of mako and of os.path)

_SPLIT = re.compile(r"[/\\]")


def ref_tokens(uri):
    return [t for t in _SPLIT.split(uri) if t != "" and t != "."]


def ref_walk(start, toks):
    """Walk toks from the directory `start` (components relative to the
    scratch tree T, start[0] = the root's own name).
    returns (final components, or None when the walk went above T; left_root)"""
    st = list(start)
    left = False
    for t in toks:
        if st is None:
            break
        if t == "..":
            if st:
                st.pop()
            else:
                st = None  # above the scratch tree: it can never come back (T's name is not spellable)
            if not st:
                left = True
        else:
            st.append(t)
    return (tuple(st) if st is not None else None), left


def ref_class(uri, form, depth, D, roots):
    """-> (must_refuse, left_some_root, ambiguous, [final components per root x interpretation])

    must_refuse: under every admissible reading and from every configured
    root the URI resolves (lexically) to a path outside all configured roots."""
    toks = ref_tokens(uri)
    if form in ("G", "H") or uri[:1] == "/":
        interps = [()]
    elif uri[:1] == "\\" and depth:
        interps = [(), (D,) * depth]
    else:
        interps = [(D,) * depth]
    finals = []
    inside = 0
    left_any = False
    for dd in interps:
        for r in roots:
            fin, left = ref_walk((r,) + dd, toks)
            finals.append(fin)
            left_any = left_any or left
            if fin is not None and len(fin) >= 1 and fin[0] in roots:
                inside += 1
    must = inside == 0
    ambiguous = 0 < inside < len(finals)
    return must, left_any, ambiguous, finals


# --------------------------------------------------------------------------
# scratch tree

_MARK = re.compile(r"@@M:([^@]*)@@")


def tree_files(nm):
    """root1 is the directory T/<D> (so that '../<D>/...' re-enters it), the
    second root of the two-root configuration is T/<O> (outside for every other
    configuration); T/<S> and T/<N> are outside for every configuration."""
    N, D, S, O = nm["N"], nm["D"], nm["S"], nm["O"]
    rels = [
        S,
        N,
        O + "/" + S,
        O + "/" + N,
        O + "/" + D + "/" + N,
        O + "/only2-" + N,
        D + "/" + N,
        D + "/" + O + "/" + N,
        D + "/__/" + N,
        D + "/__/" + S,
        D + "/.." + N,
        D + "/" + D + "../" + N,
    ]
    files = {}
    for r in rels:
        files[r] = "@@M:%s@@" % r
    for f in TAG_FORMS:
        for d in range(4):
            files[D + "/" + (D + "/") * d + "zz-caller-%s.tmpl" % f] = CALLER_SRC[f]
    return files


def caller_uri(form, depth, nm):
    return "/" + (nm["D"] + "/") * depth + "zz-caller-%s.tmpl" % form


def build_tree(T, nm):
    files = tree_files(nm)
    for rel, text in files.items():
        p = os.path.join(T, rel)
        os.makedirs(os.path.dirname(p), exist_ok=True)
        with open(p, "w") as f:
            f.write(text)
        os.utime(p, (1000000000, 1000000000))
    os.makedirs(os.path.join(T, "mods"), exist_ok=True)
    return files


def snapshot(T):
    """every file and directory of the tree outside mods/ (with content), plus the listing of mods/"""
    snap = {}
    mods = []
    for dp, dns, fns in os.walk(T):
        rel = os.path.relpath(dp, T)
        rel = "" if rel == "." else rel
        inm = rel == "mods" or rel.startswith("mods/")
        dns.sort()
        for fn in sorted(fns):
            r = (rel + "/" if rel else "") + fn
            if inm:
                mods.append(r)
                continue
            p = os.path.join(dp, fn)
            if os.path.islink(p):
                snap[r] = "link:" + os.readlink(p)
            else:
                with open(p, "rb") as f:
                    snap[r] = f.read()
        for dn in dns:
            r = (rel + "/" if rel else "") + dn
            if not (r == "mods" or r.startswith("mods/")):
                snap[r + "/"] = None
    return snap, mods


# --------------------------------------------------------------------------
# audit hook (installed once per process, gated by a flag)

_EVENTS = []
_HOOK = {"on": False, "installed": False}
_WRITE_FLAGS = os.O_WRONLY | os.O_RDWR | os.O_CREAT | os.O_TRUNC | os.O_APPEND


class BlockedWrite(BaseException):
    """raised by the audit hook: the library tried to create / modify something
    outside the scratch tree (the operation is recorded and NOT performed)"""


def _audit(event, args):
    if not _HOOK["on"]:
        return
    if event == "open" or event[:3] == "os." or event[:7] == "shutil." or event[:9] == "tempfile.":
        _EVENTS.append((event, args))
        T = _HOOK.get("T")
        if T:
            for p, wr in event_paths(event, args):
                if wr:
                    try:
                        ap = _norm(T, p)
                    except Exception:
                        continue
                    if not (ap == T or ap.startswith(T + "/")):
                        raise BlockedWrite("%s %r" % (event, ap))


def install_hook():
    if not _HOOK["installed"]:
        sys.addaudithook(_audit)
        _HOOK["installed"] = True


_READ_ONLY_EVENTS = {"os.listdir", "os.scandir", "os.walk", "os.fwalk", "glob.glob"}
_IGNORED_EVENTS = {"os.putenv", "os.unsetenv", "os.system", "os.exec", "os.fork", "os.kill", "os.getxattr", "os.listxattr"}


def event_paths(event, args):
    """-> list of (path, is_write)"""
    if event in _IGNORED_EVENTS:
        return []
    if event == "open":
        p, mode, flags = (tuple(args) + (None, None, None))[:3]
        if isinstance(p, int) or p is None:
            return []
        w = False
        if isinstance(mode, str) and any(c in mode for c in "wax+"):
            w = True
        if isinstance(flags, int) and flags & _WRITE_FLAGS:
            w = True
        return [(p, w)]
    w = event not in _READ_ONLY_EVENTS
    out = []
    for a in args:
        if isinstance(a, (str, bytes)) or hasattr(a, "__fspath__"):
            out.append((a, w))
    return out


# --------------------------------------------------------------------------
# worlds


class World:
    """one scratch tree; per (config, form, depth) a lookup and its calling template"""

    def __init__(self, seed, T=None):
        self.seed = seed
        self.nm = names(seed)
        self.T = os.path.realpath(T or core.scratch_dir("c09-"))
        self.files = build_tree(self.T, self.nm)
        self.snap0, self.mods0 = snapshot(self.T)
        self.cells = {}
        self.rw = None  # pristine twin used to re-execute failing cases (resolve_history)
        wl = {sys.prefix, sys.base_prefix, sys.exec_prefix, os.path.abspath(core.REPO), core.VERIF,
              os.path.dirname(os.__file__)}
        self.whitelist = tuple(sorted(os.path.realpath(p) for p in wl if p))
        install_hook()
        warm()

    def rebuild(self):
        import shutil

        for e in os.listdir(self.T):
            p = os.path.join(self.T, e)
            if os.path.isdir(p) and not os.path.islink(p):
                shutil.rmtree(p)
            else:
                os.remove(p)
        build_tree(self.T, self.nm)
        self.cells = {}

    def reset_cells(self):
        self.cells = {}

    def clear_mods(self):
        """module_directory back to empty (module files are state that outlives a lookup)"""
        md = os.path.join(self.T, "mods")
        if os.listdir(md):
            import shutil

            shutil.rmtree(md)
            os.makedirs(md)
        self.mods0 = []

    def directories(self, cfg):
        T = self.T
        k = cfg["roots"]
        D, O = self.nm["D"], self.nm["O"]
        if k == "abs":
            return [T + "/" + D]
        if k == "slash":
            return [T + "/" + D + "/"]
        if k == "dot":
            return ["./" + D + "/."]
        return [T + "/" + D, T + "/" + O + "/"]

    def rootnames(self, cfg):
        return (self.nm["D"], self.nm["O"]) if cfg["roots"] == "two" else (self.nm["D"],)

    def new_lookup(self, ci):
        """a fresh TemplateLookup for configuration ci"""
        cfg = CONFIGS[ci]
        LK = rec_lookup_class()
        md = None
        if cfg["mods"]:
            md = "./mods/." if cfg["roots"] == "dot" else self.T + "/mods"
        if isinstance(cfg["mods"], str):
            T = self.T

            def named(filename, uri):
                return T + "/mods/named/" + re.sub(r"\W", "_", uri) + "_%x.py" % (zlib.crc32(uri.encode("utf-8", "replace")) & 0xFFFF)

            return LK(directories=self.directories(cfg), module_directory=md if cfg["mods"].endswith("+dir") else None, modulename_callable=named)
        return LK(directories=self.directories(cfg), module_directory=md)

    def caller_of(self, lk, form, depth):
        """the calling template of a tag form, fetched (once) from that same lookup"""
        if form not in CALLER_SRC:
            return None
        c = lk.callers.get((form, depth))
        if c is None:
            c = lk.callers[(form, depth)] = lk.get_template(caller_uri(form, depth, self.nm))
            del lk.rec[:]
        return c

    def cell(self, ci, form, depth):
        """grid: one lookup per (configuration, form, depth), alive for one chunk of URIs"""
        key = (ci, form, depth)
        c = self.cells.get(key)
        if c is None:
            lk = self.new_lookup(ci)
            c = self.cells[key] = (lk, self.caller_of(lk, form, depth))
        return c


_RECLK = None


def rec_lookup_class():
    """TemplateLookup whose get_template additionally records what it returns
    (the real method runs unchanged)."""
    global _RECLK
    if _RECLK is None:
        from mako.lookup import TemplateLookup

        class RecLookup(TemplateLookup):
            def __init__(self, *a, **k):
                TemplateLookup.__init__(self, *a, **k)
                self.rec = []
                self.callers = {}

            def get_template(self, uri):
                t = TemplateLookup.get_template(self, uri)
                self.rec.append((uri, t))
                return t

        _RECLK = RecLookup
    return _RECLK


# --------------------------------------------------------------------------
# one case


def uri_shape(form, uri_t):
    """footprint of a URI spelling: access class, leading separators, and how it climbs"""
    m = re.match(r"[/\\]*", uri_t)
    lead = m.group(0)
    rest = uri_t[len(lead):]
    toks = ref_tokens(uri_t.replace(ABS_SLASH, "ABS").replace(ABS_BACK, "ABS"))
    feats = []
    if "{ABS" in uri_t:
        feats.append("abspath")
    if ".." in toks:
        first = toks.index("..")
        feats.append("down-then-up" if first > 0 else "dotdot")
    if "\\" in rest.replace(ABS_BACK, ""):
        feats.append("backslash-sep")
    if not uri_t.isascii():
        feats.append("look-alike-chars")
    if not lead:
        lc = "none"
    elif set(lead) == {"/"}:
        lc = "slashes"
    elif set(lead) == {"\\"}:
        lc = "backslashes"
    else:
        lc = "slash+backslash"
    return "%s lead=%s %s" % ("direct" if form in "GH" else "tag", lc, "+".join(feats) or "plain")


def run_case(w, ci, form, depth, uri_t, lk=None):
    """execute one case on the real library (on the grid cell's lookup, or on
    the given lookup).  -> (obs, viols)
    viols: list of (sig, oracle_text, expected, observed)"""
    from mako import exceptions

    cfg = CONFIGS[ci]
    T = w.T
    uri = concrete(uri_t, T)
    if lk is None:
        lk, caller = w.cell(ci, form, depth)
    else:
        caller = w.caller_of(lk, form, depth)
    del lk.rec[:]
    out = None
    etext = None
    kind = None
    del _EVENTS[:]
    _HOOK["T"] = T
    _HOOK["on"] = True
    try:
        try:
            if form == "G":
                t = lk.get_template(uri)
                kind = "served"
                out = t.render_unicode()
            elif form == "H":
                r = lk.has_template(uri)
                kind = "served" if r else "refused"
                if r is not True and r is not False:
                    kind = "exc:has_template returned %r" % (r,)
            else:
                out = caller.render_unicode(u=uri)
                kind = "served"
        except exceptions.TemplateLookupException as e:
            kind = "refused"
            etext = str(e)
            sub = "toplevel" if isinstance(e, exceptions.TopLevelLookupException) else (
                "invalid" if "cannot be relative outside" in etext else "lookup")
        except Exception as e:  # noqa
            kind = "exc:" + type(e).__name__
            etext = str(e)
        except BlockedWrite as e:
            kind = "exc:BlockedWrite"
            etext = str(e)
    finally:
        _HOOK["on"] = False
    events = list(_EVENTS)
    del _EVENTS[:]
    recs = list(lk.rec)
    del lk.rec[:]

    roots = w.rootnames(cfg)
    shape = "%s"
    viols = []

    # oracle 1: every Template handed out has its source file inside a configured root
    for ruri, t in recs:
        fn = t.filename
        ok = False
        if fn is not None:
            rp = os.path.realpath(os.path.join(T, fn))
            for r in roots:
                if rp.startswith(T + "/" + r + "/"):
                    ok = True
        if not ok:
            viols.append(("filename-outside: " + shape, "1 returned Template.filename lies inside a configured directory",
                          "file under " + "|".join(roots), {"uri": ruri, "filename": _rel(fn, T)}))
            break

    # oracle 2: audited file events + markers
    for ev, args in events:
        for p, wr in event_paths(ev, args):
            try:
                ap = _norm(T, p)
            except Exception:
                continue
            if ap == T or ap.startswith(T + "/"):
                rel = ap[len(T) + 1:]
                top = rel.split("/", 1)[0]
                if wr:
                    if not (cfg["mods"] and top == "mods"):
                        where = "root" if top in roots else "tree"
                        viols.append(("write-outside-module-directory[" + where + "] roots=" + cfg["roots"],
                                      "2/5 files are created only beneath module_directory",
                                      "writes only under mods/" if cfg["mods"] else "no writes", {"event": ev, "path": rel}))
                else:
                    if not (top in roots or (cfg["mods"] and top == "mods")):
                        viols.append(("open-outside: " + shape, "2 no file outside the configured directories is opened",
                                      "reads only under " + "|".join(roots), {"event": ev, "path": rel}))
            else:
                if not ap.startswith(w.whitelist):
                    viols.append((("write" if wr else "open") + "-foreign: %s",
                                  "2 no file outside the configured directories is touched",
                                  "nothing outside the scratch tree", {"event": ev, "path": ap}))
    for text, what in ((out, "output"), (etext, "exception text")):
        if text:
            for m in _MARK.finditer(text):
                top = m.group(1).split("/", 1)[0]
                if top not in roots:
                    viols.append(("leak[" + what + "]: %s", "2 no content of an outside file reaches output or exception text",
                                  "only markers of files under " + "|".join(roots), {what: text[:200]}))
                    break

    # oracle 4 (and 3 where the statement fixes the outcome)
    must, left, ambiguous, finals = ref_class(uri, form, depth, w.nm["D"], roots)
    isabs = "{ABS" in uri_t
    nontriv = left or isabs
    if must and kind != "refused":
        viols.append(("not-refused[" + kind.split(":")[0] + "]: %s",
                      "4 a URI resolving outside every configured directory raises TemplateLookupException",
                      "TemplateLookupException" if form != "H" else "False", {"outcome": kind, "text": (etext or out or "")[:200]}))

    # outcome class for the histogram
    exists = False
    for fin in finals:
        if fin is not None and "/".join(fin) in w.files:
            exists = True
    if must:
        rc = "outside"
    elif isabs:
        rc = "abspath"
    elif ambiguous:
        rc = "ambiguous"
    elif left:
        rc = "reenter"
    else:
        rc = "inside"
    obs = {
        "ref": rc + ("+exists" if exists else ""),
        "kind": kind if kind != "refused" or form == "H" else "refused:" + sub,
        "nontrivial": nontriv,
        "nrecs": len(recs),
        "must": must,
    }
    if not viols:
        return obs, viols
    # de-duplicate signatures within the case; the URI shape is part of the footprint
    shape = uri_shape(form, uri_t)
    seen = set()
    uniq = []
    for v in viols:
        sig = v[0].replace("%s", shape)
        if sig not in seen:
            seen.add(sig)
            uniq.append((sig,) + tuple(v[1:]))
    return obs, uniq


def _norm(T, p):
    """lexical absolute form of a path the library used (relative to the cwd = T);
    POSIX normpath keeps exactly two leading slashes: fold them"""
    ap = os.path.normpath(os.path.join(T, os.fsdecode(p)))
    if ap.startswith("//"):
        ap = ap[1:]
    return ap


def _rel(fn, T):
    if fn is None:
        return None
    ap = _norm(T, fn)
    if ap.startswith(T + "/"):
        return "<T>/" + ap[len(T) + 1:]
    return ap


def diff_snapshot(w, cfg):
    """oracle 5: -> None or (sigpart, detail)"""
    snap, mods = snapshot(w.T)
    if snap != w.snap0:
        created = sorted(set(snap) - set(w.snap0))
        deleted = sorted(set(w.snap0) - set(snap))
        changed = sorted(k for k in snap if k in w.snap0 and snap[k] != w.snap0[k])
        roots = w.rootnames(cfg)

        def cls(lst):
            return sorted({("root" if x.split("/", 1)[0] in roots else "tree") for x in lst})

        part = []
        if created:
            part.append("created in " + "+".join(cls(created)))
        if deleted:
            part.append("deleted in " + "+".join(cls(deleted)))
        if changed:
            part.append("changed in " + "+".join(cls(changed)))
        return "; ".join(part), {"created": created[:5], "deleted": deleted[:5], "changed": changed[:5]}
    new = sorted(set(mods) - set(w.mods0))
    if new and not cfg["mods"]:
        return "module files without module_directory", {"created": new[:5]}
    return None


# --------------------------------------------------------------------------
# jobs


MODNAME = "mc.props.c09"
CHAIN = "same-lookup"  # cases carrying this key are replayed, in order, in ONE process on ONE lookup (see replay)

# --------------------------------------------------------------------------
# process isolation.  The worker itself never executes a lookup: every chunk
# of the grid, every batch of two-call histories and every re-execution of a
# failing case runs in a child forked from the (clean) worker, so state that
# the library keeps per process (module-level tables, registries) has exactly
# the history of that chunk / batch / sequence - and a reported case replays.


_WARM = []


def warm():
    """Every process (worker, and hence each child; replay interpreter) first
    compiles the five caller texts as in-memory templates without a lookup and
    without rendering them: fills the regex / parser caches so that a forked
    child does not pay for them again.  No lookup, no file, no module file."""
    if not _WARM:
        from mako.template import Template

        for k in sorted(CALLER_SRC):
            Template(CALLER_SRC[k] + "\n% if True:\n${1}\n% endif\n<%def name='d()'></%def>")
        rec_lookup_class()
        _WARM.append(1)


def fork_call(fn, *args):
    import pickle
    import traceback

    r, wfd = os.pipe()
    pid = os.fork()
    if pid == 0:
        code = 0
        try:
            os.close(r)
            try:
                res = ("ok", fn(*args))
            except BaseException:  # noqa
                res = ("err", traceback.format_exc()[-3000:])
            with os.fdopen(wfd, "wb") as f:
                f.write(pickle.dumps(res))
        except BaseException:  # noqa
            code = 1
        finally:
            os._exit(code)
    os.close(wfd)
    with os.fdopen(r, "rb") as f:
        data = f.read()
    os.waitpid(pid, 0)
    if not data:
        raise RuntimeError("child process died without a result")
    res = pickle.loads(data)
    if res[0] == "err":
        raise RuntimeError("child process failed:\n" + res[1])
    return res[1]


# two-call histories on a fresh lookup.  rows: (forms of the second URI, config ids, k1, k2, keq, exists_only)
#   u1 ranges over the URIs of <=k1 segments (spellings PAIR_SP1) that resolve outside every root;
#   u2 over every URI of <=k2 segments (spellings PAIR_SP2) when u1 names an existing outside file,
#   plus every URI of <=keq segments whose root-clamped normal form equals u1's; u2 != u1.
#   exists_only: only the u1 that name an existing outside file.
PAIR_SP1 = [("", "/"), ("/", "/"), ("", "\\")]
PAIR_SP2 = [("", "/"), ("/", "/"), ("", "\\"), ("//", "//")]
PAIR_PLANS = {
    "quick": [
        (["G"], [_AO], 3, 2, 3, True),
        (["G"], [_AO], 2, 2, 2, False),
        (["G"], [_TM], 3, 2, 3, True),
        (["H"], [_AO], 3, 2, 3, True),
        (TAG_FORMS, [_AO], 3, 1, 2, True),
    ],
    "thorough": [
        (["G"], [_AO], 3, 3, 3, False),
        (["G"], [_AO], 4, 2, 4, True),
        (["G", "H"], ALL_CFG, 3, 2, 3, True),
        (TAG_FORMS, [_AO, _TM], 3, 2, 2, True),
    ],
}
# alias histories.  rows: (forms of the traversal URI, config ids, n, mix_n)
#   t ranges over the URIs of <=n segments (grid spellings: 5 separator patterns, every separator mix for
#   <=mix_n segments, 6 prefixes; alphabet + ALIAS_EXTRA) that resolve outside every root onto an existing
#   file; h over every URI of the same universe that does NOT resolve outside and whose identifier-sanitised
#   spelling (every non-word character replaced by '_') equals that of t as the form passes it on.
ALIAS_EXTRA = ["__"]
ALIAS_PLANS = {
    "quick": [
        (["G"], [_AO], 3, 2),
        (["H"] + TAG_FORMS, [_AO], 2, 2),
        (["G"], [_TM], 2, 2),
    ],
    "thorough": [
        (["G"], [_AO], 3, 3),
        (["H", "I"], [_AO, _TM], 3, 2),
        (["G", "H"] + TAG_FORMS, ALL_CFG, 2, 2),
    ],
}
PAIR_SHARDS = {"quick": 16, "thorough": 64}

# look-alike family of the grid.  rows: (forms, depths, config ids, max n)
UNI_DD = ["‥", "．．", "․․", "﹒﹒", ".．", "．."]
UNI_DOT = [".", "．"]
UNI_SEP = ["/", "\\", "／", "＼", "∕", "⧸", "﹨"]
UNI_PLANS = {
    "quick": [
        (["G"], [0], [_AO, _TM], 3),
        (["I"], [0, 1], [_AO], 3),
        (["H"] + OTHER_TAGS, [0, 1], [_AO], 2),
    ],
    "thorough": [
        (["G"], [0], [_AO], 4),
        (["G", "H"], [0], ALL_CFG, 3),
        (TAG_FORMS, [0, 1, 2], [_AO, _TM], 3),
    ],
}


def fullwidth(name):
    return "".join(chr(ord(c) + 0xFEE0) if c.isalnum() and ord(c) < 128 else c for c in name)


def gen_uni(tier, seed, shard=0, nshards=1):
    """URIs whose path syntax is spelled with compatibility / look-alike
    characters: '..' as U+2025, U+FF0E U+FF0E, U+2024 U+2024, U+FE52 U+FE52 or
    half-ASCII mixtures, '.' as U+FF0E, separators U+FF0F U+FF3C U+2215 U+29F8
    U+FE68 (and the ASCII ones), a full-width spelling of the file name; at
    least one non-ASCII character.  -> (uri, n)"""
    nm = names(seed)
    maxn = max(r[3] for r in UNI_PLANS[tier])
    base = [nm["N"], nm["D"], nm["S"], nm["O"], "\0DD", "\0D", fullwidth(nm["N"])]
    seen = set()
    for n in range(1, maxn + 1):
        for segs in itertools.product(base, repeat=n):
            has_dd = "\0DD" in segs
            has_d = "\0D" in segs
            for dd in ([".."] + UNI_DD) if has_dd else [".."]:
                for dot in UNI_DOT if has_d else ["."]:
                    real = [dd if x == "\0DD" else dot if x == "\0D" else x for x in segs]
                    for sep in UNI_SEP:
                        body = sep.join(real)
                        for pre in ("", sep):
                            u = pre + body
                            if u.isascii() or u in seen:
                                continue
                            if zlib.crc32(u.encode("utf-8")) % nshards != shard:
                                continue
                            seen.add(u)
                            yield u, n


def plan(tier, seed):
    ns = 64 if tier == "quick" else 256
    order = list(range(ns))
    # the seed permutes shard order only
    k = seed % ns
    order = order[k:] + order[:k]
    jobs = [{"kind": "grid", "tier": tier, "seed": seed, "shard": i, "nshards": ns} for i in order]
    nps = PAIR_SHARDS[tier]
    pj = [{"kind": "pairs", "tier": tier, "seed": seed, "shard": i, "nshards": nps} for i in range(nps)]
    # interleave so that the pair jobs do not all queue at the end
    out = []
    step = max(1, len(jobs) // max(1, len(pj)))
    for i, j in enumerate(jobs):
        out.append(j)
        if i % step == 0 and pj:
            out.append(pj.pop(0))
    from mc import c09_relroots

    rc = list(c09_relroots.cases(tier))
    nr = 16
    rj = [{"kind": "relroots", "tier": tier, "seed": seed, "cases": rc[i::nr]} for i in range(nr)]
    return out + pj + rj


def _relroots_batch(cases):
    from mc import c09_relroots

    scratch = core.scratch_dir("c09rr-")
    out = []
    for c in cases:
        out.append(c09_relroots.run_in_scratch(c, scratch))
    return out


def _run_relroots_job(job, st):
    cases = job["cases"]
    n = 0
    for i in range(0, len(cases), 300):
        batch = cases[i : i + 300]
        res = fork_call(_relroots_batch, batch)
        for c, r in zip(batch, res):
            n += 1
            st.states += 1
            st.traces += 1
            st.evaluations += sum(1 for o in c["ops"] if o == "get")
            st.transitions += len(c["ops"])
            if len(set(c["ops"])) > 1:
                st.nontrivial += 1
            st.oracles["relroots"] += 1
            st.outcomes[("relroots", "ok" if r is None else r[0])] += 1
            if r is not None:
                st.violation(r[0], c, r[1], expected=r[2], observed=r[3])
    st.extra["relroots_histories"] = n
    return st


def cases_for(tier, n, fam):
    """(config, form, depth) combinations a URI of n segments of that family is run on"""
    seen = set()
    out = []
    if fam == "uni":
        rows = [(f, d, c, mx) for f, d, c, mx in UNI_PLANS[tier]]
    else:
        rows = [(f, d, c, (mm if fam == "mix" else mp)) for f, d, c, mp, mm in PLANS[tier]]
    for forms, depths, cfgs, mx in rows:
        if n > mx:
            continue
        for ci in cfgs:
            for f in forms:
                for d in depths:
                    if (ci, f, d) not in seen:
                        seen.add((ci, f, d))
                        out.append((ci, f, d))
    out.sort()
    return out


CHUNK = {"quick": 600, "thorough": 1200}


def run_job(job):
    st = Stats()
    cwd = os.getcwd()
    try:
        if job.get("kind") == "relroots":
            return _run_relroots_job(job, st)
        if job.get("kind") == "pairs":
            return _run_pairs_job(job, st)
        return _run_job(job, st)
    finally:
        try:
            os.chdir(cwd)
        except OSError:
            os.chdir("/")


class _Viols:
    """keeps the shortest 3 cases per signature, counts all"""

    def __init__(self):
        self.by = {}
        self.count = {}

    def add(self, sig, case, oracle, expected, observed):
        self.count[sig] = self.count.get(sig, 0) + 1
        lst = self.by.setdefault(sig, [])
        size = len(case["uri"]) + sum(len(h["uri"]) for h in case.get("prelude") or [])
        lst.append((size, case["uri"], case, oracle, expected, observed))
        lst.sort(key=lambda x: x[:2])
        del lst[3:]

    def flush(self, st):
        for sig in sorted(self.by):
            for _, _, case, oracle, expected, observed in self.by[sig]:
                st.violation(sig, case, oracle, expected=expected, observed=observed)
            st.sigcount[sig] = self.count[sig]


def mkcase(cfg, form, depth, uri_t, seed, lk=None):
    """lk: which lookup object of the process serves the call (cases with the same tag share one)"""
    c = {"cfg": cfg, "form": form, "depth": depth, "uri": uri_t, "seed": seed}
    if lk is not None:
        c["lk"] = lk
    return c


def _sigs(viols):
    return {v[0] for v in viols}


def prelude_footprint(w, ci, h):
    must = ref_class(concrete(h["uri"], w.T), h["form"], h["depth"], w.nm["D"], w.rootnames(CONFIGS[ci]))[0]
    return " | after an earlier %s of %s in the same process" % (
        "lookup" if h["form"] in "GH" else "tag lookup",
        "a URI resolving outside the roots" if must else "a URI not resolving outside the roots")


def _snap_sigs(viols):
    return any(v[0].startswith("snapshot:") for v in viols)


def base_of(sig):
    """order-dependent violations are classified by oracle and access class only
    (the spelling of the second URI is not what fails)"""
    head, _, shape = sig.partition(": ")
    cls = shape.split(" ", 1)[0] if shape.startswith(("direct", "tag")) else ""
    return head + (": " + cls if cls else "")


RESOLVE_PER_SIG = 3  # per job and worker signature: how many failing cases are re-executed alone in a fresh process
SEARCH_PER_BASE = 2  # per job and (oracle, access class): how many order-dependent failures get their prelude searched
SEARCH_MAX = 48  # single earlier calls tried before the whole history is replayed and reduced
RESOLVE_SECONDS = 25  # per job: wall budget for prelude searches (afterwards order-dependent failures are only counted)


def _seq_child(w, ci, seq):
    """(in a fresh child) the sequence of cases on ONE fresh lookup over the
    pristine twin tree - exactly what replay() does.  -> signatures of the last step"""
    rw = w.rw
    cfg = CONFIGS[ci]
    os.chdir(rw.T)
    rw.clear_mods()
    lks = {}
    viols = []
    for c in seq:
        lk = lks.get(c.get("lk"))
        if lk is None:
            lk = lks[c.get("lk")] = rw.new_lookup(ci)
        _, viols = run_case(rw, ci, c["form"], c["depth"], c["uri"], lk=lk)
    sigs = _sigs(viols)
    d = diff_snapshot(rw, cfg)
    if d is not None:
        sigs.add("snapshot: %s roots=%s" % (d[0], cfg["roots"]))
        rw.rebuild()
    return sigs


def _pristine_run(w, ci, seq):
    if w.rw is None:
        w.rw = World(w.seed)
    return fork_call(_seq_child, w, ci, seq)


def resolve_history(w, st, ci, case, viols, history, budget):
    """A case failed in a child that had executed `history` (list of case dicts,
    oldest first) before.  Decide by re-execution in fresh processes (pristine
    tree, fresh lookup) whether it fails alone or needs an earlier call, so
    that every reported case replays.  At most RESOLVE_PER_SIG cases per
    signature and job are re-executed; the others are only counted.
    -> list of (case', sig', oracle, expected, observed)"""
    cnt = st.extra.setdefault("violations_by_worker_signature", {})
    todo = []
    for v in viols:
        cnt[v[0]] = cnt.get(v[0], 0) + 1
        if budget.get(v[0], 0) < RESOLVE_PER_SIG:
            budget[v[0]] = budget.get(v[0], 0) + 1
            todo.append(v)
    if not todo:
        return []
    rx = st.extra
    rx["recheck_executions"] = rx.get("recheck_executions", 0) + 1
    got = _pristine_run(w, ci, [case])
    out = []
    dep = []
    for v in todo:
        if v[0] in got:
            out.append((case, v[0], v[1], v[2], v[3]))
        else:
            dep.append(v)
    if not dep:
        return out
    import time as _time

    rx["order_dependent_failures"] = rx.get("order_dependent_failures", 0) + len(dep)
    t0 = _time.time()
    spent = budget.get("\0seconds", 0.0)
    keep = []
    for v in dep:
        b = "\0search:" + base_of(v[0])
        if budget.get(b, 0) < SEARCH_PER_BASE and spent < RESOLVE_SECONDS:
            keep.append(v)
    for b in {"\0search:" + base_of(v[0]) for v in keep}:
        budget[b] = budget.get(b, 0) + 1
    if len(keep) < len(dep):
        rx["order_dependent_not_searched"] = rx.get("order_dependent_not_searched", 0) + len(dep) - len(keep)
    dep = keep
    if not dep:
        return out
    need = {v[0] for v in dep}
    found = {}
    # candidates: the call just before, then URIs resolving outside the roots (nearest first), then the others
    roots = w.rootnames(CONFIGS[ci])
    cands = [h for h in reversed(history) if not (h["uri"] == case["uri"] and h["form"] == case["form"] and h["depth"] == case["depth"])]
    first = cands[:1]
    tail = cands[1:]
    flags = [ref_class(concrete(h["uri"], w.T), h["form"], h["depth"], w.nm["D"], roots)[0] for h in tail]
    ordered = first + [h for h, f in zip(tail, flags) if f] + [h for h, f in zip(tail, flags) if not f]
    tried = []
    for h in ordered[:SEARCH_MAX]:
        if h in tried:
            continue
        tried.append(h)
        rx["recheck_executions"] += 2
        for sg in _pristine_run(w, ci, [h, case]) & need:
            found.setdefault(sg, h)
        if len(found) == len(need):
            break
    missing = need - set(found)
    if missing and len(history) > 1:
        # no single earlier call suffices: the whole history of this process, then reduced (delta debugging)
        rx["recheck_executions"] += len(history) + 1
        hit = _pristine_run(w, ci, list(history) + [case]) & missing
        if hit:
            target = sorted(hit)[0]
            small = _ddmin(list(history), lambda sub: target in _pristine_run(w, ci, sub + [case]), rx, 60)
            again = _pristine_run(w, ci, small + [case])
            for sg in hit:
                found[sg] = small if sg in again else list(history)
    budget["\0seconds"] = spent + _time.time() - t0
    for v in dep:
        h = found.get(v[0])
        if h is None:
            rx.setdefault("harness_errors", []).append(
                "case %r failed (%s) in its chunk but neither alone, after one earlier call, nor after the whole history of the chunk in a fresh process" % (case, v[0]))
            continue
        if isinstance(h, list):
            pre = [dict(x, chain=CHAIN) for x in h]
            sig = base_of(v[0]) + " | after several earlier calls in the same process"
        else:
            pre = [dict(h, chain=CHAIN)]
            sig = base_of(v[0]) + prelude_footprint(w, ci, h)
        out.append((dict(case, chain=CHAIN, prelude=pre), sig, v[1], v[2], v[3]))
    return out


def _ddmin(seq, test, rx, max_tests=120):
    """a smaller sub-sequence of seq that still makes test() true"""
    n = 2
    tests = 0
    while len(seq) >= 2 and tests < max_tests:
        size = -(-len(seq) // n)
        reduced = False
        for i in range(0, len(seq), size):
            cand = seq[:i] + seq[i + size:]
            tests += 1
            rx["recheck_executions"] = rx.get("recheck_executions", 0) + len(cand) + 1
            if cand and test(cand):
                seq = cand
                n = max(n - 1, 2)
                reduced = True
                break
            if tests >= max_tests:
                break
        if not reduced:
            if n >= len(seq):
                break
            n = min(len(seq), n * 2)
    return seq


def _account(st, form, obs, label="cases_"):
    st.evaluations += 1
    st.transitions += 1 + obs["nrecs"]
    st.oracles["filename"] += obs["nrecs"]
    st.oracles["audit+markers"] += 1
    st.oracles["reference"] += 1
    if obs["kind"].startswith("exc:"):
        d = st.extra.setdefault("other_exceptions", {})
        k = "%s %s" % (form, obs["kind"])
        d[k] = d.get(k, 0) + 1


def _run_job(job, st):
    tier, seed = job["tier"], job["seed"]
    sh, ns = job["shard"], job["nshards"]
    w = World(seed)
    os.chdir(w.T)
    vi = _Viols()
    seen = set()
    by_n = {}
    per_n = {}
    for uri_t, n, fam in gen_uris(tier, seed, sh, ns):
        if uri_t in seen:
            continue
        seen.add(uri_t)
        by_n.setdefault((n, fam), []).append(uri_t)
    for uri_t, n in gen_uni(tier, seed, sh, ns):
        seen.add(uri_t)
        by_n.setdefault((n, "uni"), []).append(uri_t)
    st.extra["distinct_uris"] = len(seen)
    budget = {}
    nchunk = 0
    for n, fam in sorted(by_n):
        combos = cases_for(tier, n, fam)
        uris = by_n[(n, fam)]
        per_n["%d%s" % (n, fam)] = len(uris)
        for ci_group in _group_by_cfg(combos):
            for i in range(0, len(uris), CHUNK[tier]):
                chunk = uris[i:i + CHUNK[tier]]
                _run_chunk(w, st, vi, seed, ci_group, chunk, budget, nchunk % 25 == 0)
                nchunk += 1
    st.extra["uris_by_segments"] = per_n
    st.extra["child_processes"] = st.extra.get("child_processes", 0) + nchunk
    vi.flush(st)
    return st


def _group_by_cfg(combos):
    groups = {}
    for ci, f, d in combos:
        groups.setdefault(ci, []).append((ci, f, d))
    return [groups[k] for k in sorted(groups)]


def _chunk_child(w, seed, combos, chunk, percase, sample):
    """(in a child) all cases (combos x chunk) of one configuration.  One lookup
    per (form, depth) serves the whole chunk, the module_directory starts
    empty: a deliberate long history.  Oracle 5 at the end (after every case
    when percase: used to attribute a snapshot difference)."""
    ci = combos[0][0]
    cfg = CONFIGS[ci]
    if percase:
        w.rebuild()
    w.reset_cells()
    w.clear_mods()
    st = Stats()
    fails = []
    pos = 0
    for _, form, depth in combos:
        for uri_t in chunk:
            obs, viols = run_case(w, ci, form, depth, uri_t)
            if percase:
                d = diff_snapshot(w, cfg)
                if d is not None:
                    viols.append(("snapshot: %s roots=%s" % (d[0], cfg["roots"]),
                                  "5 the tree outside module_directory is unchanged", "unchanged tree", d[1]))
                    w.rebuild()
                    w.mods0 = []
            _account(st, form, obs)
            st.states += 1
            st.traces += 1
            if obs["nontrivial"]:
                st.nontrivial += 1
            st.outcomes[(obs["ref"], obs["kind"])] += 1
            fk = "cases_" + FORM_NAMES[form]
            st.extra[fk] = st.extra.get(fk, 0) + 1
            if viols:
                fails.append((pos, viols))
            if sample and pos == (len(chunk) // 2):
                st.sample({"case": mkcase(cfg, form, depth, uri_t, seed), "ref": obs["ref"], "outcome": obs["kind"]})
            pos += 1
    if not percase:
        d = diff_snapshot(w, cfg)
        if d is not None:
            return ("snapdiff", d)
        st.oracles["snapshot"] += 1
    else:
        st.oracles["snapshot"] += pos
    return ("ok", st, fails)


def _run_chunk(w, st, vi, seed, combos, chunk, budget, sample=False):
    ci = combos[0][0]
    cfg = CONFIGS[ci]
    r = fork_call(_chunk_child, w, seed, combos, chunk, False, sample)
    if r[0] == "snapdiff":
        # attribute: rebuild and re-run this chunk (fresh child) with a snapshot after every case
        d = r[1]
        r = fork_call(_chunk_child, w, seed, combos, chunk, True, sample)
        st.extra["child_processes"] = st.extra.get("child_processes", 0) + 1
        if not any(_snap_sigs(v) for _, v in r[2]):
            st.extra.setdefault("harness_errors", []).append(
                "snapshot difference %r after a chunk could not be attributed to a case" % (d,))
    _, cst, fails = r
    st.merge(cst)
    if fails:
        order = [mkcase(cfg, f, dp, u, seed, "%s%d" % (f, dp)) for _, f, dp in combos for u in chunk]
        for pos, viols in fails:
            # everything this chunk's process ran before (process-wide state, module files and the per-form lookups)
            for c2, sig, oracle, expected, observed in resolve_history(w, st, ci, order[pos], viols, order[:pos], budget):
                vi.add(sig, c2, oracle, expected, observed)


# --------------------------------------------------------------------------
# two-call histories


def clamp_form(uri):
    """root-clamped normal form: '..' at the root stays at the root"""
    stk = []
    for t in ref_tokens(uri):
        if t == "..":
            if stk:
                stk.pop()
        else:
            stk.append(t)
    return tuple(stk)


_NONWORD = re.compile(r"\W")


def sanitised(uri):
    return _NONWORD.sub("_", uri)


def effective_uri(form, depth, uri, D):
    """the URI a form hands to the lookup: tags resolve a relative URI against the caller's directory"""
    if form in ("G", "H") or uri[:1] == "/":
        return uri
    return "/" + (D + "/") * depth + uri


def pair_universe(seed, n, spellings):
    S = segments(seed)
    out = []
    seen = set()
    for k in range(1, n + 1):
        for segs in itertools.product(S, repeat=k):
            for pre, sep in spellings:
                u = pre + sep.join(segs)
                if u not in seen:
                    seen.add(u)
                    out.append(u)
    return out


def alias_universe(seed, n, mix_n):
    S = segments(seed) + ALIAS_EXTRA
    seen = set()
    out = []
    for k in range(1, n + 1):
        seps = list(_patterns(k))
        if 1 < k <= mix_n:
            seps = list(dict.fromkeys(seps + list(itertools.product(MIX_SEPS, repeat=k - 1))))
        for segs in itertools.product(S, repeat=k):
            for sp in seps:
                body = _join(segs, sp)
                for pre in PREFIXES:
                    u = pre + body
                    if u not in seen:
                        seen.add(u)
                        out.append(u)
    return out


def gen_pairs(tier, seed, w, shard, nshards):
    """yield (ci, form, u1, u2) - each once - for this shard (sharded on u1):
    u1 resolves outside and is fetched by get_template, u2 goes through the form"""
    cache = {}

    def uni(n, sp):
        key = (n, id(sp))
        if key not in cache:
            cache[key] = pair_universe(seed, n, sp)
        return cache[key]

    emitted = set()
    for forms, cfgs, k1, k2, keq, exists_only in PAIR_PLANS[tier]:
        W = uni(k2, PAIR_SP2)
        key = ("eq", keq)
        if key not in cache:
            byc = {}
            for v in uni(keq, PAIR_SP2):
                byc.setdefault(clamp_form(v), []).append(v)
            cache[key] = byc
        byc = cache[key]
        for ci in cfgs:
            roots = w.rootnames(CONFIGS[ci])
            for u1 in uni(k1, PAIR_SP1):
                if zlib.crc32(u1.encode()) % nshards != shard:
                    continue
                must, _, _, finals = ref_class(u1, "G", 0, w.nm["D"], roots)
                if not must:
                    continue
                exists = any(f is not None and "/".join(f) in w.files for f in finals)
                if exists_only and not exists:
                    continue
                cands = list(byc.get(clamp_form(u1), ()))
                if exists:
                    cands = cands + W
                seen2 = set()
                for u2 in cands:
                    if u2 == u1 or u2 in seen2:
                        continue
                    seen2.add(u2)
                    for f in forms:
                        k = (ci, f, u1, u2)
                        if k in emitted:
                            continue
                        emitted.add(k)
                        yield k


def gen_alias_pairs(tier, seed, w, shard, nshards):
    """yield (ci, form, t, h) - each once - for this shard (sharded on t): t resolves
    outside onto an existing file and goes through the form, h does not resolve
    outside, is fetched by get_template and has the same sanitised spelling"""
    emitted = set()
    cache = {}
    D = w.nm["D"]
    for forms, cfgs, n, mix_n in ALIAS_PLANS[tier]:
        if (n, mix_n) not in cache:
            U = alias_universe(seed, n, mix_n)
            idx = {}
            for u in U:
                idx.setdefault(sanitised(u), []).append(u)
            cache[(n, mix_n)] = (U, idx)
        U, idx = cache[(n, mix_n)]
        for ci in cfgs:
            roots = w.rootnames(CONFIGS[ci])
            harmless = {}
            for t in U:
                if zlib.crc32(t.encode()) % nshards != shard:
                    continue
                for f in forms:
                    must, _, _, finals = ref_class(t, f, 0, D, roots)
                    if not must or not any(x is not None and "/".join(x) in w.files for x in finals):
                        continue
                    for h in idx.get(sanitised(effective_uri(f, 0, t, D)), ()):
                        if h == t:
                            continue
                        ok = harmless.get(h)
                        if ok is None:
                            ok = harmless[h] = not ref_class(h, "G", 0, D, roots)[0]
                        if not ok:
                            continue
                        k = (ci, f, t, h)
                        if k not in emitted:
                            emitted.add(k)
                            yield k


PAIR_BATCH = 150


def _run_pairs_job(job, st):
    tier, seed = job["tier"], job["seed"]
    w = World(seed)
    os.chdir(w.T)
    vi = _Viols()
    budget = {}
    groups = {}
    # a history is [(form, uri), (form, uri)]: both orders of every pair
    for ci, f, u1, u2 in gen_pairs(tier, seed, w, job["shard"], job["nshards"]):
        g = groups.setdefault(ci, [])
        g.append(("outside-first", [("G", u1), (f, u2)]))
        g.append(("outside-second", [(f, u2), ("G", u1)]))
    for ci, f, t, h in gen_alias_pairs(tier, seed, w, job["shard"], job["nshards"]):
        g = groups.setdefault(ci, [])
        g.append(("alias-first", [("G", h), (f, t)]))
        g.append(("alias-second", [(f, t), ("G", h)]))
    nb = 0
    for ci in sorted(groups):
        items = groups[ci]
        for i in range(0, len(items), 2 * PAIR_BATCH):
            _run_pair_batch(w, st, vi, seed, ci, items[i:i + 2 * PAIR_BATCH], budget, nb % 10 == 0)
            nb += 1
    st.extra["child_processes"] = st.extra.get("child_processes", 0) + nb
    vi.flush(st)
    return st


def _pair_child(w, seed, ci, items, perhist, sample):
    """(in a child) every history on a fresh lookup; the process and the module_directory (empty at the start
    of the batch) are shared by the histories of the batch"""
    cfg = CONFIGS[ci]
    if perhist:
        w.rebuild()
    w.clear_mods()
    st = Stats()
    fails = []
    pos = 0
    for hi, (order, steps) in enumerate(items):
        lk = w.new_lookup(ci)
        res = []
        for j, (f, u) in enumerate(steps):
            obs, viols = run_case(w, ci, f, 0, u, lk=lk)
            if perhist and j == len(steps) - 1:
                d = diff_snapshot(w, cfg)
                if d is not None:
                    viols.append(("snapshot: %s roots=%s" % (d[0], cfg["roots"]),
                                  "5 the tree outside module_directory is unchanged", "unchanged tree", d[1]))
                    w.rebuild()
                    w.mods0 = []
            _account(st, f, obs)
            if viols:
                fails.append((pos, viols))
            res.append(obs)
            pos += 1
        st.states += 1
        st.traces += 1
        st.nontrivial += 1
        st.outcomes[("two calls", order, res[0]["ref"] + ":" + res[0]["kind"].split(":")[0],
                     res[1]["ref"] + ":" + res[1]["kind"].split(":")[0])] += 1
        form = [f for f, _ in steps if f != "G"] or ["G"]
        fk = "histories_%s_%s" % ("alias" if order.startswith("alias") else "outside", FORM_NAMES[form[0]])
        st.extra[fk] = st.extra.get(fk, 0) + 1
        if sample and hi == len(items) // 2:
            st.sample({"history": [mkcase(cfg, f, 0, u, seed) for f, u in steps], "outcomes": [o["kind"] for o in res]})
    if not perhist:
        d = diff_snapshot(w, cfg)
        if d is not None:
            return ("snapdiff", d)
        st.oracles["snapshot"] += 1
    else:
        st.oracles["snapshot"] += len(items)
    return ("ok", st, fails)


def _run_pair_batch(w, st, vi, seed, ci, items, budget, sample=False):
    cfg = CONFIGS[ci]
    r = fork_call(_pair_child, w, seed, ci, items, False, sample)
    if r[0] == "snapdiff":
        d = r[1]
        r = fork_call(_pair_child, w, seed, ci, items, True, sample)
        st.extra["child_processes"] = st.extra.get("child_processes", 0) + 1
        if not any(_snap_sigs(v) for _, v in r[2]):
            st.extra.setdefault("harness_errors", []).append(
                "snapshot difference %r after a batch of two-call histories could not be attributed" % (d,))
    _, cst, fails = r
    st.merge(cst)
    if fails:
        order = [mkcase(cfg, f, 0, u, seed, "h%d" % hi) for hi, (_, steps) in enumerate(items) for f, u in steps]
        for pos, viols in fails:
            for c2, sig, oracle, expected, observed in resolve_history(w, st, ci, order[pos], viols, order[:pos], budget):
                vi.add(sig, c2, oracle, expected, observed)


# --------------------------------------------------------------------------
# replay.  A plain case runs in a child process on a fresh tree and a fresh
# lookup.  A case with `prelude` runs its prelude cases and then itself in one
# child on ONE lookup.  Cases marked with the CHAIN key and replayed one after
# the other in the same interpreter (core.isolated_replay: prelude cases, then
# the case) share the process, one tree and one lookup per configuration -
# that is how an order-dependent violation replays.

_CHAIN_CTX = {}
_ATEXIT = []


class _Ctx:
    def __init__(self, seed):
        self.w = World(seed)
        self.lookups = {}
        if not _ATEXIT:
            import atexit

            atexit.register(core.cleanup_scratch)
            _ATEXIT.append(1)

    def step(self, case):
        w = self.w
        ci = cfg_id(case["cfg"]["roots"], case["cfg"]["mods"])
        key = (ci, case.get("lk"))
        lk = self.lookups.get(key)
        if lk is None:
            lk = self.lookups[key] = w.new_lookup(ci)
        obs, viols = run_case(w, ci, case["form"], case["depth"], case["uri"], lk=lk)
        d = diff_snapshot(w, CONFIGS[ci])
        if d is not None:
            viols = list(viols) + [("snapshot: %s roots=%s" % (d[0], case["cfg"]["roots"]),
                                    "5 the tree outside module_directory is unchanged", "unchanged tree", d[1])]
        text = "%s(%r) depth=%d cfg=%r -> ref=%s outcome=%s" % (
            FORM_NAMES[case["form"]], concrete(case["uri"], w.T), case["depth"], case["cfg"], obs["ref"], obs["kind"])
        return viols, text

    def run(self, steps):
        os.chdir(self.w.T)
        texts = []
        viols = []
        for c in steps:
            viols, t = self.step(c)
            texts.append(t)
        text = " ; then ".join(texts)
        if viols:
            return False, "reproduced: " + text + " :: " + "; ".join("%s %r" % (v[0], v[3]) for v in viols)
        return True, "holds: " + text


def replay(case):
    case = core.unjson(case)
    if case.get("kind") == "relroots":
        r = fork_call(_relroots_batch, [case])[0]
        return (True, "holds") if r is None else (False, "reproduced: %r" % (r,))
    seed = case.get("seed", 0)
    prelude = case.get("prelude")
    cwd = os.getcwd()
    try:
        if prelude is None and case.get("chain"):
            key = (case["chain"], seed)
            ctx = _CHAIN_CTX.get(key)
            if ctx is None:
                ctx = _CHAIN_CTX[key] = _Ctx(seed)
            return ctx.run([case])
        ctx = _Ctx(seed)
        return tuple(fork_call(ctx.run, list(prelude or []) + [case]))
    finally:
        os.chdir(cwd)


def post(tier, seed, st):
    """order-dependent candidates: confirm the prelude in a fresh interpreter (core.find_prelude)"""
    done = set()
    for v in st.violations:
        c = v["case"]
        if not (isinstance(c, dict) and c.get("prelude")) or v["sig"] in done or len(done) >= 3:
            continue
        done.add(v["sig"])
        if len(c["prelude"]) != 1:
            continue
        bare = {k: x for k, x in c.items() if k != "prelude"}
        pre = core.find_prelude(MODNAME, bare, c["prelude"])
        if pre is None:
            st.extra.setdefault("order_dependent_unconfirmed", []).append(v["sig"])
        else:
            c["prelude"] = pre
            st.extra["order_dependent_confirmed_by_find_prelude"] = st.extra.get("order_dependent_confirmed_by_find_prelude", 0) + 1


LEVEL_TEXT = (
    "Every URI string of <=4 (quick) / <=6 (thorough) segments over the 9-segment traversal alphabet, every separator "
    "spelling, prefix and suffix, plus the absolute-path family, is resolved by the real TemplateLookup directly and "
    "through each tag / Namespace form from callers at depth 0..3 under the configurations and per-form bounds listed in "
    "BOUNDS[tier]['plan'] (the full product of the design is cut to that plan for cost); on each case the "
    "returned filenames, all audited file events, the markers in output and exception text, the refusal demanded by "
    "the reference walker and (per chunk, attributed per case on difference) the tree snapshot are checked. In addition "
    "every two-call history (outside-resolving URI with another URI, and with every alias under identifier sanitisation; both "
    "orders) of the stated bound runs on a fresh lookup, and the look-alike (Unicode compatibility) spellings of the path syntax "
    "are enumerated. Chunks run in forked child processes so that process-wide state has a bounded, replayable history. "
    "Complete within those bounds; no sampling."
)
LEVEL_NOTE = (
    "Trusted: CPython os/posixpath/audit hooks, the reference walker. Symbolic links, Windows path semantics, "
    "modulename_callable and custom TemplateCollection subclasses are outside the bound. Existence probes (stat) of "
    "outside paths are not observed."
)
READY = True
