"""C15 - module files are regenerated when stale and never observed half-written.

(a) E2: BFS over histories {modify source older/equal/newer, rm module, corrupt module (other magic number),
    touch module, construct, tick} against the staleness rule, with and without a module_writer, with and
    without byte-code caching.
(b) E3: for every intercepted environment call made by Template(filename, module_directory) - for each initial
    state - die before it / die after it / fail it / tear a write after j bytes; then the module path must hold
    nothing, the complete old or the complete new module, and a fresh Template (same process and a new process)
    must render the current source.
(c) E4: two (three) constructors of the same Template interleaved at every intercepted call.
"""

import errno
import hashlib
import json
import os
import re
import shutil
import subprocess
import sys
import tempfile

from mc import bfs, core, sched, seams
from mc.core import Stats

PROPERTY = "C15"
LEVEL = "model_checking"
ENGINE = "E2+E3+E4"
TECHNIQUE = "explicit-state BFS over module-file histories; exhaustive single-fault/crash-point enumeration over every intercepted file-system call; all interleavings of concurrent constructors under a controlled scheduler"
RULE = (
    "(a) canonical states of (source version/mtime, module file: generated-from version, magic ok, mtime, cached byte-code) reached by BFS; "
    "(b) one case per (initial state, intercepted call index k, fault mode); (c) one execution per interleaving of the constructors at "
    "intercepted calls. Non-trivial = the module file exists or is written in the case."
)
LEVEL_TEXT = (
    "Histories are explored to the fixpoint of the canonical state space; every call the constructor makes to os/tempfile/shutil/util/compat "
    "is a crash point for every fault mode; every interleaving (preemption-bounded for 3 constructors) of concurrent constructors is run. "
    "After each, the module path bytes are compared with the complete old/new module produced by an undisturbed run under the same clock, "
    "and recovery is checked with a fresh Template in this and in a new process."
)
LEVEL_NOTE = (
    "'Dies' = process death (completed system calls persist in order); power-loss reordering is outside the statement. mtimes are whole "
    "seconds owned by the harness (module files are stamped with the simulated clock by the shutil.move proxy). shutil.move is one step "
    "when it is a rename; when source and destination are on different file systems the proxy performs the copy in observable chunks."
)
ASSUMPTIONS = [
    "'older' means older by at least a whole-second boundary; a source later than the module within the same second may or may not trigger a rewrite; one earlier within the same second must not",
    "temporary files left beside the module are allowed; only the module path is constrained",
    "new-process recovery is executed once per distinct on-disk state (memoised by content hash)",
]
BOUNDS = {
    "quick": {"history_depth": "7 (5 with byte-code caching)", "faults": "1 fault at every call x every mode", "constructors": "2 threads: preemption bound 3; 3 threads: bound 1", "routes": "module_directory (all initial states) and module_filename (no-module, stale-module): the temporary file of a rewrite lives next to the module path", "foreign_magic": "+1 and x10+4"},
    "thorough": {"history_depth": "10 (7 with byte-code caching)", "faults": "1 fault at every call x every mode; 2 faults (die after a failed call)", "constructors": "2 threads: preemption bound 5; 3 threads: bound 2"},
}
READY = True
PIN_CPUS = True

_PROC = {}


class Die(BaseException):
    """the writing process dies here"""


def _root():
    if _PROC.get("pid") != os.getpid():
        _PROC.clear()
        _PROC["pid"] = os.getpid()
    r = _PROC.get("root")
    if r is None or not os.path.isdir(r):
        r = core.scratch_dir("c15-")
        os.mkdir(os.path.join(r, "src"))
        _PROC["root"] = r
    return r


# the source is a non-UTF-8 file with a coding comment and non-ASCII text: the module file is written in that
# encoding and says so in its own first line, so "renders the current source" also covers the bytes of the module
# (the <%page> tag re-enables the loop context: a no-op by default, the documented per-template switch when the
# Template is constructed with enable_loop=False - one history configuration does that)
_HEAD = "## -*- coding: iso-8859-1 -*-\n<%page enable_loop=\"True\"/>"


def src_text(v):
    return _HEAD + {"A": "vA\u00e9|${1+1}", "B": "vB\u00fc|${1+1}", "C": "vCCC\u00e9\u00fc|${1+1}"}[v]


def marker(v):
    return {"A": "vA\u00e9|2", "B": "vB\u00fc|2", "C": "vCCC\u00e9\u00fc|2"}[v]


class Env:
    """scratch tree + seams.  mode: None (transparent, recording), or a fault plan, or a scheduler"""

    def __init__(self, nested=False, pyc=False, writer=False):
        from mako import codegen, template as mtemplate, util as mutil

        self.root = _root()
        self.src = os.path.join(self.root, "src", "t.html")
        self.moddir = os.path.join(self.root, "mods", "x", "y") if nested else os.path.join(self.root, "mods")
        self.modpath = os.path.join(self.moddir, "t.html.py")
        self.clock = seams.SimClock(1000.0)
        self.sm = seams.Seams()
        self.sm.set(codegen, "time", self.clock)
        self.log = []  # names of intercepted calls, in order
        self.plan = None  # (k, mode, j)
        self.crash_snapshot = "unset"
        self.sched = None
        self.fds = []
        self.pyc = pyc
        self.writer_calls = []
        self.use_writer = writer
        self.tkw = {}  # further Template keyword arguments of this environment
        env = self

        def wrap(name, fn, kind="op"):
            def call(*a, **k):
                idx = len(env.log)
                env.log.append(name)
                if env.sched is not None:
                    env.sched.yield_point(name)
                p = env.plan
                if p is not None and p[0] == idx:
                    mode = p[1]
                    if mode == "die_before":
                        env.crash_snapshot = env.module_bytes()
                        raise Die(name)
                    if mode == "error":
                        raise OSError(errno.EACCES if kind == "read" else errno.ENOSPC, "injected fault", name)
                    if mode == "torn":
                        fd, data = a[0], a[1]
                        os.write(fd, data[: p[2]])
                        env.crash_snapshot = env.module_bytes()
                        raise Die(name)
                    r = fn(*a, **k)
                    if mode == "die_after":
                        env.crash_snapshot = env.module_bytes()  # what is on disk at the instant of death
                        raise Die(name)
                    return r
                r = fn(*a, **k)
                if env.sched is not None and name == "shutil.move":
                    env.sched.yield_point(name + ".done")  # another constructor may look right after the move
                return r

            return call

        def mkstemp(*a, **k):
            fd, name = tempfile.mkstemp(*a, **k)
            env.fds.append(fd)
            # where the temporary file lives decides whether the final move is a rename (one step) or a copy
            if os.path.realpath(os.path.dirname(name)) != os.path.realpath(os.path.dirname(env.modpath)):
                env.tmp_outside = os.path.dirname(name)
            return fd, name

        def move(src, dst):
            # a rename when possible (one step); otherwise an observable chunked copy, like shutil.move
            try:
                os.rename(src, dst)
            except OSError:
                data = open(src, "rb").read()
                fd = os.open(dst, os.O_WRONLY | os.O_CREAT | os.O_TRUNC, 0o644)
                try:
                    half = len(data) // 2
                    wrap("move.copy.write1", os.write)(fd, data[:half])
                    wrap("move.copy.write2", os.write)(fd, data[half:])
                finally:
                    os.close(fd)
                os.unlink(src)
            os.utime(dst, (env.stamp(), env.stamp()))
            return dst

        self.sm.set(
            mtemplate,
            "os",
            seams.Forward(
                os,
                {"stat": wrap("os.stat", os.stat, "read"), "write": wrap("os.write", os.write), "close": wrap("os.close", os.close)},
                {"exists": wrap("os.path.exists", os.path.exists, "read")},
            ),
        )
        self.sm.set(mutil, "os", seams.Forward(os, {"makedirs": wrap("os.makedirs", os.makedirs)}, {"exists": wrap("verify.exists", os.path.exists, "read")}))
        self.sm.set(mutil, "read_file", wrap("read_file", mutil.read_file, "read"))
        self.sm.set(mtemplate, "tempfile", seams.Forward(tempfile, {"mkstemp": wrap("mkstemp", mkstemp)}))
        self.sm.set(mtemplate, "shutil", seams.Forward(shutil, {"move": wrap("shutil.move", move)}))
        real_load = mtemplate.compat.load_module
        self.sm.set(mtemplate, "compat", seams.Forward(mtemplate.compat, {"load_module": wrap("load_module", real_load, "read")}))
        self.Template = mtemplate.Template
        self._old_dwb = sys.dont_write_bytecode
        sys.dont_write_bytecode = not pyc
        self.reset_tree()

    def stamp(self):
        """mtime given to a module file written now: the simulated second plus a fixed fraction, so that source mtimes
        can fall earlier or later within the same second"""
        return self.clock.now + 0.7

    # ---- tree
    def reset_tree(self):
        shutil.rmtree(os.path.join(self.root, "mods"), ignore_errors=True)
        if os.path.exists(self.src):
            os.unlink(self.src)
        self.close_fds()

    def close_fds(self):
        for fd in self.fds:
            try:
                os.close(fd)
            except OSError:
                pass
        self.fds = []

    def write_src(self, v, mtime):
        with open(self.src, "wb") as f:
            f.write(src_text(v).encode("iso-8859-1"))
        os.utime(self.src, (mtime, mtime))

    def module_bytes(self):
        try:
            with open(self.modpath, "rb") as f:
                return f.read()
        except FileNotFoundError:
            return None

    def construct(self, **kw):
        kw = dict(self.tkw, **kw)
        if self.use_writer:
            kw["module_writer"] = self._writer
        try:
            before = os.stat(self.modpath).st_mtime_ns
        except OSError:
            before = None
        if getattr(self, "via", "module_directory") == "module_filename":
            # the caller names the module file itself (what TemplateLookup does for modulename_callable)
            t = self.Template(filename=self.src, module_filename=self.modpath, uri="t.html", **kw)
        else:
            t = self.Template(filename=self.src, module_directory=self.moddir, uri="t.html", **kw)
        # whatever way the module file was written, its mtime is the simulated clock (the harness owns time)
        try:
            after = os.stat(self.modpath).st_mtime_ns
        except OSError:
            after = None
        if after is not None and after != before and self.sched is None:
            os.utime(self.modpath, (self.stamp(), self.stamp()))
        return t

    def _writer(self, source, path):
        self.writer_calls.append((source, path))
        fd, name = tempfile.mkstemp(dir=os.path.dirname(path))
        os.write(fd, source)
        os.close(fd)
        os.rename(name, path)
        os.utime(path, (self.stamp(), self.stamp()))

    def snapshot(self):
        """(relative path -> (bytes, mtime_ns)) of the mods tree and the source"""
        out = {}
        for base, _, files in os.walk(os.path.join(self.root, "mods")):
            for fn in files:
                p = os.path.join(base, fn)
                out[os.path.relpath(p, self.root)] = (open(p, "rb").read(), os.stat(p).st_mtime_ns)
        if os.path.exists(self.src):
            out["src/t.html"] = (open(self.src, "rb").read(), os.stat(self.src).st_mtime_ns)
        return out

    def restore(self, snap):
        self.reset_tree()
        for rel, (data, mt) in snap.items():
            p = os.path.join(self.root, rel)
            os.makedirs(os.path.dirname(p), exist_ok=True)
            with open(p, "wb") as f:
                f.write(data)
            os.utime(p, ns=(mt, mt))

    def close(self):
        self.sm.restore()
        sys.dont_write_bytecode = self._old_dwb
        self.reset_tree()


# --------------------------------------------------------------------------
# (b) crash points

INITIAL = ["no-module", "stale-module", "corrupt-module", "missing-dir", "fresh-module"]


def setup_initial(env, name):
    """leaves the tree in the named initial state; returns the version the source now holds"""
    env.reset_tree()
    env.clock.now = 1000.0
    env.plan = None
    if name == "no-module":
        os.makedirs(env.moddir)
        env.write_src("A", 990)
        return "A"
    if name == "missing-dir":
        env.write_src("A", 990)
        return "A"
    env.write_src("A", 990)
    env.construct()  # module for A, stamped 1000
    if name == "stale-module":
        env.clock.now = 1010.0
        env.write_src("B", 1005)
        return "B"
    if name == "corrupt-module":
        data = env.module_bytes()
        data2 = re.sub(rb"_magic_number = (\d+)", lambda m: b"_magic_number = " + str(int(m.group(1)) + 1).encode(), data)
        assert data2 != data
        with open(env.modpath, "wb") as f:
            f.write(data2)
        os.utime(env.modpath, (1000, 1000))
        env.clock.now = 1010.0
        return "A"
    if name == "fresh-module":
        env.clock.now = 1010.0
        return "A"
    raise ValueError(name)


_NEWPROC = r"""
import sys
sys.path.insert(0, %(repo)r)
sys.dont_write_bytecode = True
from mako.template import Template
try:
    print("OUT:" + Template(filename=%(src)r, module_directory=%(moddir)r, uri="t.html").render())
except BaseException as e:
    print("EXC:%%s: %%s" %% (type(e).__name__, e))
"""


def new_process_render(env):
    """Template in a fresh interpreter over the tree as it is now (memoised per distinct on-disk state)"""
    snap = env.snapshot()
    key = hashlib.sha1(repr(sorted((k, hashlib.sha1(v[0]).hexdigest(), v[1] // 10**9) for k, v in snap.items())).encode()).hexdigest()
    memo = _PROC.setdefault("np", {})
    if key in memo:
        return memo[key], False
    code = _NEWPROC % {"repo": os.path.abspath(core.REPO), "src": env.src, "moddir": env.moddir}
    pr = subprocess.run([sys.executable, "-B", "-c", code], capture_output=True, text=True, timeout=60)
    out = (pr.stdout.strip().splitlines() or ["EXC:no output " + pr.stderr[-200:]])[-1]
    env.restore(snap)  # the new process may have repaired the tree; put it back for the in-process check
    memo[key] = out
    return out, True


class BaselineWrong(Exception):
    """the undisturbed construction already renders something else than the current source"""


def fault_cases(env, init, tier):
    """returns (log of the undisturbed run, old bytes, new bytes, list of plans)"""
    cur = setup_initial(env, init)
    snap = env.snapshot()
    old = env.module_bytes()
    env.log = []
    t = env.construct()
    got = t.render()
    if got != marker(cur):
        raise BaselineWrong(init, marker(cur), got)
    log = list(env.log)
    new = env.module_bytes()
    plans = []
    for k, name in enumerate(log):
        plans.append((k, "die_before", 0))
        plans.append((k, "die_after", 0))
        plans.append((k, "error", 0))
        if name in ("os.write", "move.copy.write1", "move.copy.write2"):
            n = len(new or b"x" * 8)
            for j in sorted({0, 1, n // 2, n - 1}):
                plans.append((k, "torn", j))
    return cur, snap, log, old, new, plans


def run_fault(env, init, cur, snap, old, new, plan, st, newproc=True):
    env.restore(snap)
    env.clock.now = 1010.0 if init not in ("no-module", "missing-dir") else 1000.0
    env.log = []
    env.plan = plan
    env.crash_snapshot = "unset"
    outcome = "completed"
    try:
        env.construct()
    except Die:
        outcome = "died"
        # a dying process runs no cleanup: buffered data of open file objects never reaches the disk.  The state
        # that counts is the one on disk at the instant of death, not the one after Python unwound the stack.
        if env.crash_snapshot != "unset":
            snap_now = env.module_bytes()
            if snap_now != env.crash_snapshot:
                if env.crash_snapshot is None:
                    if os.path.exists(env.modpath):
                        os.unlink(env.modpath)
                else:
                    mt = os.stat(env.modpath).st_mtime if os.path.exists(env.modpath) else env.stamp()
                    with open(env.modpath, "wb") as f:
                        f.write(env.crash_snapshot)
                    os.utime(env.modpath, (mt, mt))
    except BaseException as e:  # noqa
        outcome = "failed:" + type(e).__name__
    finally:
        env.plan = None
        env.close_fds()
    st.evaluations += 1
    st.transitions += len(env.log)
    viols = []
    state = env.module_bytes()
    where = "nothing" if state is None else "old" if state == old else "new" if state == new else "OTHER"
    st.outcomes["%s/%s/%s" % (plan[1], outcome.split(":")[0], where)] += 1
    if where == "OTHER":
        viols.append(("crash:module-path-partial", "module path holds nothing, the complete old or the complete new module", "old(%s)/new(%d bytes)" % (len(old) if old else None, len(new)), "%d bytes: %r..." % (len(state), state[:40])))
    if state is not None:
        st.nontrivial += 1
    # recovery: a later Template in a new process, then one in this process
    if newproc:
        out, ran = new_process_render(env)
        if ran:
            st.extra["new_process_runs"] = st.extra.get("new_process_runs", 0) + 1
        if out != "OUT:" + marker(cur):
            viols.append(("crash:recovery-new-process", "a later Template in another process loads and renders the current source", marker(cur), out))
    try:
        got = env.construct().render()
    except BaseException as e:  # noqa
        got = "EXC:%s: %s" % (type(e).__name__, str(e)[:100])
    if got != marker(cur):
        viols.append(("crash:recovery-same-process", "a later Template loads and renders the current source", marker(cur), got))
    return outcome, where, viols


# --------------------------------------------------------------------------
# (c) concurrent constructors


def run_concurrent(init, nthreads, prefix, cross_fs=False):
    s = sched.Scheduler(prefix)
    env = Env()
    try:
        cur = setup_initial(env, init)
        # the Templates of the set-up (and of earlier executions) are dead by now, deterministically: what a
        # weak registry of the library still knows must not depend on when the collector last ran
        import gc

        gc.collect()
        env.sched = s
        res = {}

        def body():
            t = env.construct()
            return t.render()

        for _ in range(nthreads):
            s.spawn(body)
        ex = s.run()
        env.sched = None
        env.close_fds()
        viols = []
        if ex.deadlock or ex.horizon:
            viols.append(("concurrent:blocked", "every constructor finishes", "finish", repr(ex.deadlock)))
        for i in range(nthreads):
            r = ex.results.get(i)
            if r is None or r[0] != "ok":
                viols.append(("concurrent:exception:%s" % (type(r[1]).__name__ if r else None), "no constructor raises", "Template", repr(r)[:200]))
            elif r[1] != marker(cur):
                viols.append(("concurrent:content", "every constructor renders the current source", marker(cur), r[1]))
        final = env.module_bytes()
        try:
            got = env.construct().render()
        except BaseException as e:  # noqa
            got = "EXC:%s" % type(e).__name__
        if got != marker(cur):
            viols.append(("concurrent:final-module", "the final module file is complete", marker(cur), got))
        return ex, viols
    finally:
        env.close()


# --------------------------------------------------------------------------
# (a) histories

H_GAP = 3


class HWorld:
    def __init__(self, cfg):
        self.cfg = cfg
        self.env = Env(pyc=cfg["pyc"], writer=cfg["writer"])
        self.env.tkw = dict(cfg.get("tkw") or {})
        e = self.env
        os.makedirs(e.moddir)
        e.clock.now = 1000.0
        e.write_src("A", 995)
        self.src = ("A", 995)
        self.mod = None  # dict(gen, magic_ok, mtime, bytes)
        self.pyc_gen = None  # version whose code the cached byte-code holds (pyc configs only), with (mtime, size) it was made for
        self.ref_dir = None
        self.alive = []  # every Template constructed in this history stays alive (a long-lived process keeps them)

    def close(self):
        self.env.close()

    def expected_bytes(self, v, clock):
        """what a default writer produces for the current source under this clock (reference run in another module dir)"""
        e = self.env
        key = (v, clock, e.src, repr(sorted(e.tkw.items())))
        memo = _PROC.setdefault("ref", {})
        if key not in memo:
            d = tempfile.mkdtemp(dir=e.root, prefix="ref")
            try:
                save = e.log, e.use_writer
                e.use_writer = False
                e.Template(filename=e.src, module_directory=d, uri="t.html", **e.tkw)
                e.log, e.use_writer = save
                memo[key] = open(os.path.join(d, "t.html.py"), "rb").read()
            finally:
                shutil.rmtree(d, ignore_errors=True)
        return memo[key]

    def step(self, ev):
        e = self.env
        viols = []
        kind = ev[0]
        out = kind
        if kind == "tick":
            e.clock.now += 1
        elif kind == "src":
            _, v, rel = ev
            base = self.mod["mtime"] if self.mod else e.stamp()
            sec = float(int(base))
            mt = {"older": base - 1, "equal": base, "newer": base + 1, "samesec-earlier": sec + 0.35, "samesec-later": sec + 0.9, "epoch": 0.0}[rel]
            e.write_src(v, mt)
            self.src = (v, mt)
        elif kind == "rm_module":
            if self.mod:
                os.unlink(e.modpath)
                self.mod = None
        elif kind == "ext_regen":
            # another process regenerates the module from the current source (what its default writer produces)
            if self.mod is None or self.mod["gen"] != self.src[0] or not self.mod["magic_ok"]:
                try:
                    data = self.expected_bytes(self.src[0], e.clock.now)
                except BaseException:  # noqa
                    return "ext_regen:skipped", viols
                tmp = e.modpath + ".ext"
                with open(tmp, "wb") as f:
                    f.write(data)
                os.utime(tmp, (e.stamp(), e.stamp()))
                os.replace(tmp, e.modpath)
                self.mod = {"gen": self.src[0], "magic_ok": True, "mtime": e.stamp(), "bytes": data}
                if self.cfg["pyc"]:
                    self.pyc_gen = None
        elif kind == "corrupt_module":
            if self.mod and self.mod["magic_ok"]:
                data = e.module_bytes()
                # another generator version: the next / the previous number, and numbers whose decimal text begins with this one's
                how = ev[1] if len(ev) > 1 else "+1"
                other = {"+1": lambda k: k + 1, "-1": lambda k: k - 1, "x10": lambda k: k * 10, "x10+4": lambda k: k * 10 + 4}[how]
                data2 = re.sub(rb"_magic_number = (\d+)", lambda m: b"_magic_number = " + str(other(int(m.group(1)))).encode(), data)
                with open(e.modpath, "wb") as f:
                    f.write(data2)
                os.utime(e.modpath, (self.mod["mtime"], self.mod["mtime"]))
                # a module produced by another code-generator version does not come with this version's byte-code
                import importlib.util

                pc = importlib.util.cache_from_source(e.modpath)
                if os.path.exists(pc):
                    os.unlink(pc)
                self.mod["magic_ok"] = False
                self.mod["bytes"] = data2
        elif kind == "touch_module":
            if self.mod:
                mt = self.src[1] + {"older": -1, "newer": 1}[ev[1]]
                if mt >= 0:  # no negative time stamps
                    os.utime(e.modpath, (mt, mt))
                    self.mod["mtime"] = mt
        elif kind == "construct":
            if self.mod is None or not self.mod["magic_ok"] or int(self.mod["mtime"]) < int(self.src[1]):
                due = True
            elif self.mod["mtime"] >= self.src[1]:
                due = False
            else:
                due = None  # the source is later than the module by a fraction of the same second: either is accepted
            before = e.module_bytes()
            before_mt = os.stat(e.modpath).st_mtime_ns if before is not None else None
            e.writer_calls = []
            try:
                t = e.construct()
                self.alive.append(t)
                got = t.render()
            except BaseException as ex:  # noqa
                viols.append(("history:construct-exception:%s" % type(ex).__name__, "constructing the Template succeeds", "Template", repr(ex)[:200]))
                return "construct:exception", viols
            after = e.module_bytes()
            after_mt = os.stat(e.modpath).st_mtime_ns if after is not None else None
            if due is None:
                due = after != before or after_mt != before_mt
                out_tag = ":samesec"
            else:
                out_tag = ""
            if due:
                out = "construct:rewrite" + out_tag
                try:
                    exp = self.expected_bytes(self.src[0], e.clock.now)
                except BaseException as ex:  # noqa
                    # constructing the same Template over an empty module directory failed
                    viols.append(("history:construct-exception:%s:empty-module-directory" % type(ex).__name__, "constructing the Template over a missing module succeeds", "Template", repr(ex)[:200]))
                    return "construct:exception", viols
                if after != exp:
                    viols.append(("history:rewrite-missing-or-wrong", "a stale/missing/foreign module file is rewritten from the current source", "module for %s" % self.src[0], "unchanged" if after == before else "other bytes"))
                if self.cfg["writer"]:
                    if len(e.writer_calls) != 1 or e.writer_calls[0] != (exp, e.modpath):
                        viols.append(("history:writer-call", "module_writer is called once with (encoded module, path) when a rewrite is due", "1 call with the encoded module", "%d calls" % len(e.writer_calls)))
                self.mod = {"gen": self.src[0], "magic_ok": True, "mtime": e.stamp(), "bytes": after}
                want = marker(self.src[0])
            else:
                out = "construct:reuse" + out_tag
                if after != before or after_mt != before_mt:
                    viols.append(("history:needless-rewrite", "an up-to-date module file is reused unchanged", "unchanged bytes and mtime", "rewritten"))
                    self.mod = {"gen": self.src[0], "magic_ok": True, "mtime": after_mt // 10**9, "bytes": after}
                if self.cfg["writer"] and e.writer_calls:
                    viols.append(("history:writer-call-needless", "module_writer is called exactly when a rewrite is due", "0 calls", "%d calls" % len(e.writer_calls)))
                want = marker(self.mod["gen"])
            if got != want:
                sig = "history:render-after-%s" % ("rewrite" if due else "reuse")
                viols.append((sig, "after a rewrite (or with a module generated from the current source) the Template renders the current source", want, got))
        return out, viols

    def key(self):
        e = self.env
        times = sorted({e.clock.now, self.src[1]} | ({self.mod["mtime"]} if self.mod else set()))
        m, acc, prev = {}, 0, None
        for t in times:
            if prev is not None:
                acc += min(H_GAP, t - prev)
            m[t] = acc
            prev = t
        top = m[e.clock.now]
        pyc = None
        if self.cfg["pyc"]:
            # the cached byte-code is part of the state: which bytes it was compiled from is determined by its file content
            import importlib.util

            p = importlib.util.cache_from_source(e.modpath)
            if os.path.exists(p):
                pyc = hashlib.sha1(open(p, "rb").read()[16:]).hexdigest()[:8], open(p, "rb").read()[8:16].hex()
        # the number the module file on disk really carries (an observation of the implementation's state, not of the
        # model: files with different foreign numbers are different states)
        realmagic = None
        try:
            with open(e.modpath, "rb") as f:
                mm = re.search(rb"_magic_number = (\d+)", f.read(4000))
            realmagic = int(mm.group(1)) if mm else "none"
        except OSError:
            pass
        return (
            self.src[0],
            top - m[self.src[1]],
            (self.mod["gen"], self.mod["magic_ok"], top - m[self.mod["mtime"]]) if self.mod else None,
            pyc,
            realmagic,
        )


def h_events(cfg):
    ev = [("tick",), ("construct",), ("rm_module",), ("corrupt_module",), ("corrupt_module", "x10+4"), ("touch_module", "older"), ("touch_module", "newer"), ("ext_regen",)]
    for v in ("A", "B", "C"):
        for rel in ("older", "equal", "newer") + (("samesec-earlier", "samesec-later", "epoch") if v == "B" else ()):
            ev.append(("src", v, rel))
    return ev


def initial_key(cfg):
    w = HWorld(cfg)
    try:
        return w.key()
    finally:
        w.close()


def expand(cfg, hist):
    out = []
    for ev in h_events(cfg):
        w = HWorld(cfg)
        try:
            for h in hist:
                w.step(tuple(h))
            outcome, viols = w.step(ev)
            key = w.key()
            nontriv = w.mod is not None
        finally:
            w.close()
        if viols and cfg["pyc"]:
            # attribute to the byte-code cache only what disappears when the cache is off (same history)
            w2 = HWorld(dict(cfg, pyc=False))
            try:
                for h in hist:
                    w2.step(tuple(h))
                _, v2 = w2.step(ev)
            finally:
                w2.close()
            if not v2:
                viols = [(sig + ":stale-bytecode", o, e_, ob) for (sig, o, e_, ob) in viols]
        out.append({"ev": list(ev), "key": key, "outcome": outcome, "viol": viols, "nontrivial": nontriv, "steps": len(hist) + 1})
    return out


def h_configs(tier):
    cfgs = [{"pyc": False, "writer": False}, {"pyc": False, "writer": True}, {"pyc": True, "writer": False},
            # a rarely set option whose effective value the source overrides (<%page enable_loop="True"/>)
            {"pyc": False, "writer": True, "tkw": {"enable_loop": False}}]
    for c in cfgs:
        # byte-code caching multiplies the state space (the cached file is part of the state)
        c["max_depth"] = (5 if c["pyc"] else 7) if tier == "quick" else (7 if c["pyc"] else 10)
        if c.get("tkw"):
            c["max_depth"] = 5 if tier == "quick" else 8
    return cfgs


# --------------------------------------------------------------------------


def conc_specs(tier):
    q = tier == "quick"
    out = []
    for init in ("no-module", "stale-module", "corrupt-module", "missing-dir"):
        out.append((init, 2, 3 if q else 5))
        out.append((init, 3, 1 if q else 2))
    return out


def plan(tier, seed):
    jobs = []
    for init in INITIAL:
        # the fault points of one initial state are spread over 3 jobs (every point runs a later process)
        for sh in range(3):
            jobs.append({"kind": "faults", "init": init, "tier": tier, "cross_fs": False, "shard": sh, "nshards": 3})
            if tier != "quick" or init in ("no-module", "stale-module"):
                jobs.append({"kind": "faults", "init": init, "tier": tier, "cross_fs": False, "via": "module_filename", "shard": sh, "nshards": 3})
    for init, n, bound in conc_specs(tier):
        ex, viols = run_concurrent(init, n, [])
        firsts = sched.first_level(ex, bound)
        jobs.append({"kind": "conc", "init": init, "n": n, "bound": bound, "root": True, "prefixes": [[]], "w": 0})
        for pre in firsts:
            jobs.append({"kind": "conc", "init": init, "n": n, "bound": bound, "root": False, "prefixes": [pre], "w": len(ex.points) - len(pre)})
    jobs.sort(key=lambda j: -j.get("w", 1000))
    return jobs


def run_job(job):
    st = Stats()
    if job["kind"] == "faults":
        env = Env()
        env.via = job.get("via", "module_directory")
        env.tmp_outside = None
        try:
            init = job["init"]
            try:
                cur, snap, log, old, new, plans = fault_cases(env, init, job["tier"])
            except BaselineWrong as e:
                st.states += 1
                st.violation("baseline:render-after-write", {"kind": "baseline", "init": init}, "after a (re)write the Template renders the current source", expected=e.args[1], observed=e.args[2])
                return st
            st.extra.setdefault("intercepted_calls", {})[init + ("" if env.via == "module_directory" else "@" + env.via)] = log
            st.oracles["tempfile-next-to-the-module"] += 1
            if env.tmp_outside is not None and job.get("shard", 0) == 0:
                st.violation("tempfile:created outside the module's directory (%s)" % env.via, {"kind": "baseline-tmp", "init": init, "via": env.via},
                             "the new module is put in place in one step: its temporary file lives in the directory of the module path", expected=os.path.dirname(env.modpath), observed=env.tmp_outside)
            for pi_, plan in enumerate(plans):
                if pi_ % job.get("nshards", 1) != job.get("shard", 0):
                    continue
                outcome, where, viols = run_fault(env, init, cur, snap, old, new, plan, st)
                st.states += 1
                st.traces += 1
                for sig, oracle, exp, obs in viols:
                    st.violation(sig + "@" + log[plan[0]], {"kind": "fault", "init": init, "plan": list(plan), "via": env.via}, oracle, expected=exp, observed=obs)
                if plan[1] == "torn" or len(st.samples) < 2:
                    st.sample({"initial": init, "call": log[plan[0]], "k": plan[0], "mode": plan[1], "bytes": plan[2], "outcome": outcome, "module_path": where})
        finally:
            env.close()
    elif job["kind"] == "conc":
        init, n, bound = job["init"], job["n"], job["bound"]
        label = "%s/%dthr/b=%s" % (init, n, bound)

        def one(prefix):
            ex, viols = run_concurrent(init, n, prefix)
            st.evaluations += 1
            st.traces += 1
            st.states += 1
            st.transitions += len(ex.points)
            if any(p["running_enabled"] and p["chosen"] != 0 for p in ex.points):
                st.nontrivial += 1
            st.outcomes["conc:%s:%s" % (init, ",".join(str(ex.results[i][0]) for i in sorted(ex.results)))] += 1
            for sig, oracle, exp, obs in viols:
                st.violation(sig, {"kind": "conc", "init": init, "n": n, "choices": list(ex.choices)}, oracle, expected=exp, observed=obs)
            return ex

        if job["root"]:
            ex = one([])
            st.sample({"concurrent": label, "points": len(ex.points), "labels": [p["label"] for p in ex.points[:6]]})
        else:
            total = 0
            for pre in job["prefixes"]:
                nrun, capped = sched.explore(one, lambda x: None, bound, prefix=pre, max_execs=150000)
                total += nrun
                if capped:
                    st.exhaustive = False
                    st.caps.append("%s: execution cap below %s" % (label, pre))
            ex_ = st.extra.setdefault("executions", {})
            ex_[label] = ex_.get(label, 0) + total
    return st


def post(tier, seed, st):
    cfgs = h_configs(tier)
    bfs.run_bfs("mc.props.c15", cfgs, st, max_depth=99, max_states=100000, deadline_s=30 if tier == "quick" else 600,
                label=lambda c: "history pyc=%s writer=%s" % (c["pyc"], c["writer"]))


def replay(case):
    st = Stats()
    if case.get("kind") == "baseline":
        env = Env()
        try:
            try:
                fault_cases(env, case["init"], "quick")
            except BaselineWrong as e:
                return False, "reproduced: baseline renders %r, expected %r" % (e.args[2], e.args[1])
        finally:
            env.close()
        return True, "holds"
    if case.get("kind") == "baseline-tmp":
        env = Env()
        env.via = case.get("via", "module_directory")
        env.tmp_outside = None
        try:
            fault_cases(env, case["init"], "quick")
            if env.tmp_outside is not None:
                return False, "reproduced: temporary file in %s" % env.tmp_outside
        finally:
            env.close()
        return True, "holds"
    if case.get("kind") == "fault":
        env = Env()
        env.via = case.get("via", "module_directory")
        env.tmp_outside = None
        try:
            cur, snap, log, old, new, plans = fault_cases(env, case["init"], "quick")
            outcome, where, viols = run_fault(env, case["init"], cur, snap, old, new, tuple(case["plan"]), st)
        finally:
            env.close()
    elif case.get("kind") == "conc":
        ex, viols = run_concurrent(case["init"], case["n"], case["choices"])
    else:
        w = HWorld(case["cfg"])
        try:
            hist = [tuple(h) for h in case["hist"]]
            for h in hist[:-1]:
                w.step(h)
            outcome, viols = w.step(hist[-1])
        finally:
            w.close()
    if viols:
        return False, "reproduced: %r" % (viols[0],)
    return True, "holds"
