"""C03 - control lines and <% %> blocks execute with Python semantics; the loop context.

Engine E1.  Every program of the bounded grammar (mc/c03_ir.py) is printed into
Mako syntax under enumerated spellings, compiled and rendered by the real
Template, and compared with the same program translated to a plain Python
function (real for/if/while/try/with statements, a reference loop context
written from the documentation) executed by CPython.

Families (all enumerated completely, sharded by running index):

 A  structure   all bodies up to weight W over the full statement alphabet, and one
                weight further over the skeleton alphabet (text / comment leaves)
 B  loops       frame x iterable x use of `loop` x way of leaving the loop x enable_loop mode
 B3 mutating    a list the loop body appends to / trims while `% for` iterates it, with loop.last /
                loop.reverse_index read before and after the change (length = the list's current length)
 B4 nested      a `% for` using `loop` written inside an anonymous <%block>, a <%call> body or a def nested
                in a def, itself used inside a `% for` of the enclosing callable
 B2 use sites   where in the `% for` body `loop` is mentioned (expression, control line,
                <% %>, call argument, tag attribute, call body, ...)
 C  spellings   every indentation combination of the '%' lines of the small skeletons,
                LF/CRLF, '% kw' / '%kw', comment / doc / empty bodies
 D  blocks      <% %> block shapes x margin x position x LF/CRLF
 E  try forms   except-clause forms x what is raised x number of handlers
"""

import itertools
import os
import time

from mc import c03_env as ENV
from mc import c03_ir as IR
from mc import core
from mc.core import Stats

PROPERTY = "C03"
LEVEL = "model_checking"
ENGINE = "E1"
TECHNIQUE = (
    "grammar-directed exhaustive enumeration of control-structure programs x spellings, each compiled and rendered by the "
    "real Template and compared with the same program executed by CPython as a plain function with a reference loop context"
)
READY = True

BOUNDS = {
    "quick": {
        "A": "all bodies of weight <=3, depth <=3, full alphabet (16 rotating spellings, one per program; weight <=1 under all 16, weight 2 under 4); weight 4, depth <=4 over the skeleton alphabet without def calls",
        "B": "9 frames x 8 iterables (one raises when evaluated) x 10 loop uses x 5 exits, enable_loop on; the three other modes on 2 frames; 72 two-deep frame compositions x 1 iterable x 3 uses x 5 exits",
        "B2": "12 use sites x 2 frames x 2 iterables x 3 for-line comments x modes on/page",
        "B3": "work list changed by the loop body: 7 mutations x 3 reads (last / reverse_index / both) x 3 placements (before / after / both) x 3 initial lengths x 3 frames x modes on/page",
        "B4": "`% for` using loop inside a nested callable (anonymous block, <%call> body, the same two inside a def, def nested in a def, def inside a <%namespace> tag) used inside a `% for` of the enclosing callable that mentions loop or not: 6 x 2 x 3 iterables x 8 uses x 3 exits x modes on/page",
        "B5": "loop attributes read on some iterations only: 12 reads x 11 gates (item-gated, after continue, conditional expression, twice, inner loop that is sometimes empty) x 2 iterables x 3 frames x modes on/page",
        "F": "a <% %> block whose line break is consumed by a backslash as the last (or only) statement of every clause of if/elif/else, for/else, while, try/except: 16 shapes x 3 frames x modes on/page x 4 spellings",
        "C": "skeletons with <=3 '%' lines: all 4^n indentations (LF/CRLF and '% kw' / '%kw' / '%  kw' rotating); 4..6 lines: 16-row cover x LF/CRLF",
        "D": "block shapes x 4 margins x 5 positions x LF/CRLF",
        "E": "except forms x raised x handler count",
    },
    "thorough": {
        "A": "all bodies of weight <=4, depth <=3, full alphabet (16 rotating spellings, one per program; weight <=2 under all 16, weight 3 under 4); weight 5, depth <=5 over the skeleton alphabet",
        "B": "9 frames x 8 iterables (one raises when evaluated) x 10 loop uses x 5 exits x 4 enable_loop modes; 72 two-deep frame compositions x 8 x 10 x 5, enable_loop on",
        "B2": "12 use sites x 9 frames x 7 iterables x 3 for-line comments x 4 modes",
        "B3": "work list changed by the loop body: 7 mutations x 3 reads x 3 placements x 3 initial lengths x 8 frames x 4 modes",
        "B4": "6 nested-callable kinds x 2 x 7 iterables x 8 uses x 3 exits x 4 modes",
        "B5": "12 reads x 11 gates x 2 iterables x 8 frames x 4 modes",
        "F": "16 shapes x 8 frames x 4 modes x 4 spellings",
        "C": "skeletons with <=4 '%' lines: all 4^n indentations x LF/CRLF ('% kw' / '%kw' / '%  kw' rotating); 5..8 lines: 16-row cover x LF/CRLF",
        "D": "block shapes x 4 margins x 5 positions x LF/CRLF",
        "E": "except forms x raised x handler count",
    },
}

RULE = (
    "One case = (program IR, enable_loop mode); canonical = the IR tuple (text lines are numbered in document order, so two "
    "cases are equal only if they are the same tree). Families enumerate disjoint IR sets; within a family every tree up to "
    "the bound is produced exactly once by a memoised weight-indexed generator. Each case is executed under the spellings the "
    "bound names. Non-trivial = the program nests at least two control constructs, or reads `loop` inside a `% for`."
)
FOOTPRINTS = {
    # signature -> the feature whose presence explains the failure (each is confirmed per case by rewriting
    # that feature into an equivalent accepted spelling and requiring the rewritten program to pass)
    "compile:second-except-clause": "a `% try` with two or more `% except` clauses: the generated module is not valid Python (SyntaxError)",
    "pyblock:literal-tab-in-string-expanded": "a literal TAB inside a string literal of a <% %> block is replaced by spaces",
    "loop:bare-tuple-iterable": "`% for x in a, b:` whose body mentions `loop`: TypeError from LoopStack._enter()",
    "loop:for-line-comment-with-colon": "`% for ...: # text: more` whose body mentions `loop`: the generated module is not valid Python",
    "loop:mentioned-only-in-call-tag-expression": "`loop` mentioned only in <%call expr=...> inside a `% for`: no loop context for that loop",
    "loop:mentioned-only-in-namespace-call-attribute": "`loop` mentioned only in an attribute of <%ns:def .../> inside a `% for`: no loop context for that loop",
    "loop:mentioned-only-in-call-tag-body": "`loop` mentioned only in the body of a <%call> inside a `% for`: NameError for __M_loop",
}

ASSUMPTIONS = [
    "CPython's compile/exec is the reference for Python semantics: the reference is the same statement list printed as a plain function",
    "the reference loop context (35 lines) restates runtime.rst 'The Loop Context': index/first/last/even/odd/reverse_index/cycle/parent; last and reverse_index need len()",
    "last / reverse_index describe the loop that is executing: they are computed from the length the iterable has at the moment they are read (a Python for over a list sees items appended during the loop)",
    "every character outside directives is output, the terminator of a '%'/'##' line and backslash-newline are not (C01's rule); CRLF text stays CRLF",
    "names assigned in a <% %> block or bound by a control line are locals of the enclosing body/def; defs only read their own locals and never-assigned context names (cross-callable visibility is C04's)",
    "`loop` read where no `% for` of the same callable is active: only 'an exception, not output' is demanded; `loop` inside the else-clause of its own `% for` is not generated (not fixed by the statement)",
    "anonymous blocks and <%call> bodies are closures of the enclosing callable: a `% for` inside them has the enclosing `% for` as loop.parent; such a closure never reads the enclosing `loop` outside its own `% for` (Python scoping makes `loop` its local there - not fixed by the statement)",
    "`% finally:` and `% else:` under `% try` are outside the statement (it lists try/except): not generated",
    "exceptions are compared by class (and by arguments for the ValueError/KeyError the programs raise themselves)",
    "termination is checked with a limit of 3 s of process CPU time per case (a case needs about 2 ms)",
    "for-targets are names and (nested) tuples of names; starred, list, attribute and subscript targets are outside the grammar",
    "mixing TAB and spaces between lines of one <% %> block is outside 'uniform margin' (CPython itself rejects the mixtures that are sensitive to tab expansion)",
    "VERIF_SEED selects text words, item values and context values from pools of interchangeable values, never the structure",
]
LEVEL_TEXT = (
    "Every control-structure program up to weight 3 (thorough 4) over if/elif/else, for/else, while, try/except, with, <% %> "
    "(assign, augment, return STOP_RENDERING, raise, break, continue), comment-only and empty bodies and def calls - and one "
    "weight further over text/comment leaves, depth up to 5 - is rendered by the real Template and compared with CPython running "
    "the same statements; every loop frame x iterable x `loop` attribute x exit x enable_loop mode likewise; every indentation "
    "combination of up to 3 (thorough 4) '%' lines, LF/CRLF, and every block shape x margin x position. Complete within those bounds; no sampling."
)
LEVEL_NOTE = (
    "Trusted: CPython compile/exec, the two 100-line printers of mc/c03_ir.py and the 35-line reference loop context. "
    "The design's W=5/7 bound was not affordable with this alphabet (x25 programs per unit of weight); the bound reached is reported."
)

MODES = ["on", "off-fake", "off-undef", "page"]

# --------------------------------------------------------------------------
# data alphabet (seed)

TEXT_POOLS = [["ta", "tb", "tc", "td", "te"], ["ué", "vß", "wж", "y中", "zé"], ["m1", "m2", "m3", "m4", "m5"], ["\U0001d11ea", "\U0001f600b", "qc", "qd", "qe"]]
ITEM_POOLS = [(1, 2, 3), (7, 8, 9), (4, 6, 5), (11, 12, 13)]
STR_POOLS = ["ab", "xy", "mn", "uv"]
XVAL_POOLS = ["X", "Ä", "Y9", "中Z"]


def data(seed):
    k = seed % 4
    it = ITEM_POOLS[k]
    s = STR_POOLS[k]
    return {
        "texts": TEXT_POOLS[k],
        "items": it,
        "str": s,
        "x": XVAL_POOLS[k],
    }


def ctx_spec(mode, dat):
    c = {"x": dat["x"], "p": True, "q": False, "c": 5, "d": 7, "cm": "@helper:cm", "boom": "@helper:boom"}
    if mode == "off-fake":
        c["loop"] = "@helper:FAKELOOP"
    return c


def mode_kwargs(mode):
    return {} if mode == "on" else {"enable_loop": False}


def with_mode(prog, mode):
    if mode == "page":
        p = dict(prog)
        p["page"] = 'enable_loop="True"'
        return p
    return prog


def alphabet(dat, full=True, skel=False, without=()):
    it = dat["items"]
    return {
        "full": full,
        "skel": skel,
        "without": without,
        "tgt": "i",
        "var": "x",
        "iter": "[%d, %d]" % (it[0], it[1]),
        "true": "p",
        "false": "q",
        "handlers": [("ValueError",), ("KeyError", "ValueError"), ("KeyError",)] if full else [("ValueError",), ("KeyError", "ValueError")],
    }


def spelling(k):
    """16 rotating spellings: indentation rule, LF/CRLF, block margin rotation"""
    return IR.Spell(nl="\r\n" if (k // 8) % 2 else "\n", a=k % 4, b=(1, 3)[(k // 4) % 2], m=k % 4, pct=None if k % 3 else ["% ", "%", "%  "])


# --------------------------------------------------------------------------
# running one case


class _CpuLimit(BaseException):
    pass


def _on_vtalrm(signum, frame):
    raise _CpuLimit()


CPU_LIMIT_S = 3.0  # CPU seconds of this process (ITIMER_VIRTUAL: independent of machine load); a case needs ~0.002


def run_mako(src, tk, ctx):
    """universal oracle: compiling and rendering terminates (within CPU_LIMIT_S of CPU time)"""
    import signal

    from mako.template import Template

    old = signal.signal(signal.SIGVTALRM, _on_vtalrm)
    signal.setitimer(signal.ITIMER_VIRTUAL, CPU_LIMIT_S)
    try:
        try:
            t = Template(src, **tk)
        except Exception as e:  # noqa
            return ("exc", type(e).__name__, str(e)[:160], "compile")
        try:
            out = t.render_unicode(**ctx)
        except Exception as e:  # noqa
            return ("exc", type(e).__name__, repr(e.args)[:160], "render")
        return ("ok", out)
    except _CpuLimit:
        return ("exc", "DoesNotTerminate", "no result after %.0f s of CPU time" % CPU_LIMIT_S, "render")
    finally:
        signal.setitimer(signal.ITIMER_VIRTUAL, 0)
        signal.signal(signal.SIGVTALRM, old)


_ARGS_COMPARED = ("ValueError", "KeyError")


def agree(exp, obs):
    if exp[0] == "ok":
        return obs[0] == "ok" and obs[1] == exp[1]
    if obs[0] != "exc" or obs[3] == "compile":
        return False
    if exp[1] == "NoLoopContext":
        return True  # only "an exception, not output" is demanded
    if exp[1] != obs[1]:
        return False
    if exp[1] in _ARGS_COMPARED and exp[2] != obs[2]:
        return False
    return True


def _kind(o):
    if o[0] == "ok":
        return "ok"
    return "exc:%s%s" % (o[1], "@compile" if len(o) > 3 and o[3] == "compile" else "")


# --- footprints of defects that have their own signature -------------------


def _walk(prog):
    def body(stmts, forstack):
        for s in stmts:
            yield s, forstack
            k = s[0]
            if k == "If":
                for _, b in s[1]:
                    yield from body(b, forstack)
                if s[2] is not None:
                    yield from body(s[2], forstack)
            elif k == "For":
                yield from body(s[3], forstack + (s,))
                if s[4] is not None:
                    yield from body(s[4], forstack)
            elif k in ("While", "With"):
                yield from body(s[2], forstack)
            elif k == "Try":
                yield from body(s[1], forstack)
                for _, b in s[2]:
                    yield from body(b, forstack)

    for _, _, b in prog.get("defs", ()):
        yield from body(b, ())
    yield from body(prog["body"], ())


def _map(prog, fn):
    """rebuild a program, replacing every statement s by the list fn(s, rebuilt children)"""

    def body(stmts):
        out = []
        for s in stmts:
            k = s[0]
            if k == "If":
                s = ("If", tuple((c, body(b)) for c, b in s[1]), body(s[2]) if s[2] is not None else None)
            elif k == "For":
                s = ("For", s[1], s[2], body(s[3]), body(s[4]) if s[4] is not None else None, s[5])
            elif k == "While":
                s = ("While", s[1], body(s[2]))
            elif k == "With":
                s = ("With", s[1], body(s[2]))
            elif k == "Try":
                s = ("Try", body(s[1]), tuple((sp, body(b)) for sp, b in s[2]))
            out.extend(fn(s))
        return tuple(out)

    p = dict(prog)
    p["defs"] = tuple((n, sg, body(b)) for n, sg, b in prog.get("defs", ()))
    p["body"] = body(prog["body"])
    return p


def _body_mentions_loop(for_stmt):
    return IR.uses_loop({"defs": (), "body": (for_stmt,)})


def footprints(prog, mode, exp, obs):
    """[(sig, neutralised program)] - known, separately signed footprints that this
    failing case may be an instance of.  The neutralised program (the offending
    feature rewritten into an equivalent spelling) must pass, else the case is
    reported under the general signature as well."""
    res = []
    loop_on = mode in ("on", "page")
    stmts = list(_walk(prog))
    ok = _kind(obs)
    # 1. a second `% except` clause
    if ok == "exc:SyntaxError@compile" and any(s[0] == "Try" and len(s[2]) >= 2 for s, _ in stmts):

        def fn(s):
            if s[0] == "Try" and len(s[2]) >= 2:
                # equivalent single clause: nest the later handlers in an inner try of the first's scope
                inner = s
                spec_all = []
                for sp, _ in s[2]:
                    spec_all.append(sp)
                # keep only clauses one at a time: try(try(body, h1), h2) has the same meaning when h1's body
                # does not raise what h2 catches; the generated handler bodies that raise are re-raised identically
                cur = s[1]
                for sp, b in s[2]:
                    cur = (("Try", cur, ((sp, b),)),)
                return list(cur)
            return [s]

        res.append(("compile:second-except-clause", _map(prog, fn)))
    # 2. literal TAB inside a string literal of a <% %> block
    if any(s[0] == "Py" and any("\t" in l.lstrip("\t \x00") for l in s[1]) for s, _ in stmts) and obs[0] == "ok":

        def fn(s):
            if s[0] == "Py":
                return [("Py", tuple(_esc_inner_tabs(l) for l in s[1]), s[2])]
            return [s]

        res.append(("pyblock:literal-tab-in-string-expanded", _map(prog, fn)))
    if loop_on:
        # 3. bare tuple as the iterable of a `% for` that has a loop context
        if ok == "exc:TypeError" and any(s[0] == "For" and not IR._simple(s[2]) and _body_mentions_loop(s) for s, _ in stmts):

            def fn(s):
                if s[0] == "For" and not IR._simple(s[2]):
                    return [("For", s[1], "(" + s[2] + ")", s[3], s[4], s[5])]
                return [s]

            res.append(("loop:bare-tuple-iterable", _map(prog, fn)))
        # 4. trailing comment containing ':' on a `% for` line that has a loop context
        if ok == "exc:SyntaxError@compile" and any(s[0] == "For" and s[5] and ":" in s[5] and _body_mentions_loop(s) for s, _ in stmts):

            def fn(s):
                if s[0] == "For" and s[5]:
                    return [("For", s[1], s[2], s[3], s[4], s[5].replace(":", ";"))]
                return [s]

            res.append(("loop:for-line-comment-with-colon", _map(prog, fn)))
        # 5./6. `loop` mentioned only inside a tag (attribute or call body)
        for s, fs in stmts:
            if s[0] == "Raw" and len(s) > 3 and fs:
                tag = s[3]

                def fn(x, tag=tag):
                    if x[0] == "For" and any(y[0] == "Raw" and len(y) > 3 and y[3] == tag for y, _ in _walk({"defs": (), "body": x[3]})):
                        if not IR.uses_loop({"defs": (), "body": tuple(y for y in x[3] if y[0] != "Raw")}):
                            return [("For", x[1], x[2], (("L", (("e", "loop.index"),)),) + x[3], x[4], x[5])]
                    return [x]

                res.append(("loop:mentioned-only-in-%s" % tag, _map(prog, fn)))
                break
    return res


def _esc_inner_tabs(line):
    lead = len(line) - len(line.lstrip("\t \x00"))
    return line[:lead] + line[lead:].replace("\t", "\\t")


_LEAF_KINDS = ("text", "expr", "comment", "doc")


def general_sig(fam, prog, exp, obs):
    """footprint of an unexplained disagreement: what was expected / observed, and the
    control constructs and <% %> statement kinds the program is made of"""
    ks, depth = IR.kinds(prog)
    if exp[0] == "ok" and obs[0] == "ok":
        what = "ok->different-output"
    else:
        what = "%s->%s" % (_kind(exp), _kind(obs))
    ks = sorted(k for k in ks if k not in _LEAF_KINDS and not k.startswith("py:w"))
    return "%s [%s]" % (what, ",".join(ks))


class Checker:
    def __init__(self, st, seed):
        self.st = st
        self.seed = seed
        self.dat = data(seed)
        self.nt_seen = 0

    def expected(self, prog, mode, nl):
        loop_on = mode in ("on", "page")
        ref = IR.ref_source(prog, loop_on, nl)
        ctx = ENV.resolve_ctx(ctx_spec(mode, self.dat))
        return ref, IR.run_reference(ref, ctx)

    def case(self, fam, prog, mode, spells, count_state=True):
        """one canonical case under one or more spellings"""
        st = self.st
        prog = with_mode(prog, mode)
        if count_state:
            st.states += 1
            _, depth = IR.kinds(prog)
            if depth >= 2 or (mode in ("on", "page") and IR.uses_loop(prog)):
                st.nontrivial += 1
        refs = {}
        ncl, npb = IR.count_lines(prog)
        for sp in spells:
            if sp.nl not in refs:
                refs[sp.nl] = self.expected(prog, mode, sp.nl)
            ref, exp = refs[sp.nl]
            src = IR.mako_source(prog, sp)
            self.one(fam, prog, mode, sp, src, ref, exp, ncl + npb)

    def one(self, fam, prog, mode, sp, src, ref, exp, steps, neutralised=False):
        st = self.st
        cspec = ctx_spec(mode, self.dat)
        obs = run_mako(src, mode_kwargs(mode), ENV.resolve_ctx(cspec))
        st.evaluations += 1
        st.traces += 1
        st.transitions += max(1, steps)
        st.oracles["reference_output" if exp[0] == "ok" else "reference_exception"] += 1
        st.oracles["compiles"] += 1
        good = agree(exp, obs)
        if not neutralised:
            st.outcomes[(fam, _kind(exp) if good else "DISAGREE:" + _kind(exp) + "->" + _kind(obs))] += 1
        if st.evaluations % 2503 == 1:
            st.sample({"family": fam, "mode": mode, "template": src, "expected": list(exp)})
        if good:
            return True
        case = {
            "family": fam,
            "mode": mode,
            "src": src,
            "tk": mode_kwargs(mode),
            "ctx": cspec,
            "ref": ref,
            "spelling": sp.describe(),
            "prog": IR.to_json(prog),
        }
        if neutralised:
            self.last = (exp, obs)
            return False
        # is this an instance of separately signed footprints?  rewrite each offending feature into an
        # equivalent accepted spelling, one after the other; only if the program then passes is the case
        # attributed to those footprints - otherwise it is reported under the general signature
        cur, cexp, cobs = prog, exp, obs
        applied = []
        explained = False
        for _ in range(5):
            fps = [f for f in footprints(cur, mode, cexp, cobs) if f[0] not in applied]
            if not fps:
                break
            sig, cur = fps[0]
            applied.append(sig)
            st.oracles["neutralised_rerun"] += 1
            nref, cexp = self.expected(cur, mode, sp.nl)
            if self.one(fam, cur, mode, sp, IR.mako_source(cur, sp), nref, cexp, steps, neutralised=True):
                explained = True
                break
            cobs = self.last[1]
        if explained:
            for sig in applied:
                st.violation(sig, case, "reference (CPython) vs Template: " + sig, expected=list(exp), observed=list(obs))
        else:
            st.violation(
                general_sig(fam, prog, exp, obs), case, "reference (CPython) vs Template", expected=list(exp), observed=list(obs)
            )
        return False


# --------------------------------------------------------------------------
# family A: structure


def family_A(tier, dat):
    """yields (fam, prog, mode, [spellings])"""
    texts = dat["texts"]
    wfull = 3 if tier == "quick" else 4
    wall16 = 1 if tier == "quick" else 2
    w4 = 0 if tier == "quick" else 3
    g = IR.Gen(3, alphabet(dat, True))
    idx = 0

    def full(b, idx, w):
        prog = IR.finish_program(b, texts)
        mode = MODES[(idx // 16) % 4]
        if w <= wall16:
            sps = [spelling(k) for k in range(16)]
        elif w <= w4 or (tier == "quick" and w <= 2):
            sps = [spelling((idx + 5 * j) % 16) for j in range(4)]
        else:
            sps = [spelling(idx % 16)]
        return ("A-full", prog, mode, sps)

    def skel(b, idx):
        return ("A-skel", IR.finish_program(b, texts), MODES[(idx // 16) % 4], [spelling(idx % 16)])

    for w in range(0, wfull + 1):
        for b in g.iter_top(w):
            yield ("lazy", lambda b=b, idx=idx, w=w: full(b, idx, w))
            idx += 1
    wsk = wfull + 1
    gs = IR.Gen(5, alphabet(dat, False, True, without=("call",) if tier == "quick" else ()))
    for b in gs.iter_top(wsk):
        yield ("lazy", lambda b=b, idx=idx: skel(b, idx))
        idx += 1


# --------------------------------------------------------------------------
# family B: loops

USES = ["none", "index", "first", "last", "evenodd", "rev", "cycle", "parent", "after", "index+after"]
EXITS = ["exhaust", "break", "continue", "raise", "return"]
FRAMES = ["top", "for", "if-in-for", "try", "for-try", "def", "while", "with", "outer"]


def iterables(dat):
    a, b, c = dat["items"]
    s = dat["str"]
    # name -> (expression, item that triggers break/raise/return, last item)
    return [
        ("empty", "[]", "0", "0"),
        ("one", "[%d]" % a, str(a), str(a)),
        ("three", "[%d, %d, %d]" % (a, b, c), str(b), str(c)),
        ("str", repr(s), repr(s[1]), repr(s[1])),
        ("gen", "(z for z in [%d, %d, %d])" % (a, b, c), str(b), str(c)),
        ("range", "range(2)", "1", "1"),
        ("tuple", "%d, %d" % (a, b), str(b), str(b)),
        # evaluating the iterable raises: nothing was entered, so nothing may be left (the enclosing loop
        # stays current for a handler) and the exception that propagates is the original one
        ("raises", "boom()", "0", "0"),
    ]


def use_pieces(use):
    e = {
        "none": [],
        "index": ["loop.index"],
        "first": ["loop.first"],
        "last": ["loop.last"],
        "evenodd": ["loop.even", "loop.odd"],
        "rev": ["loop.reverse_index"],
        "cycle": ["loop.cycle('p', 'q')"],
        "parent": ["loop.parent.index"],
        "after": [],
        "index+after": ["loop.index"],
    }[use]
    pieces = [("e", "i")]
    for x in e:
        pieces += [("t", ":"), ("e", x)]
    return tuple(pieces)


def subject(itr, use, exit_, inner=False):
    """the statements of the loop under test (and the read after it)"""
    _, expr, trig, last = itr
    body = []
    if inner:
        body.append(("For", "j", "'xy'", (("L", (("e", "j"), ("e", "loop.index"), ("e", "loop.parent.index"))),), None, None))
    if exit_ == "continue":
        body.append(("If", (("i == " + last, (("Py", ("continue",), "inline"),)),), None))
    body.append(("L", use_pieces(use)))
    if exit_ in ("break", "raise", "return"):
        stmt = {"break": "break", "raise": "raise ValueError('v')", "return": "return STOP_RENDERING"}[exit_]
        body.append(("If", (("i == " + trig, (("Py", (stmt,), "inline"),)),), None))
    out = [("For", "i", expr, tuple(body), None, None)]
    if "after" in use:
        out.append(("L", (("t", "after="), ("e", "loop.index"))))
    return tuple(out)


def frame(name, S, dat, lvl=0):
    """wrap the statements S; returns (defs, body).  lvl distinguishes names of nested frames."""
    a, b, _ = dat["items"]
    o = "o%d" % lvl
    outer = "[%d0, %d0]" % (a, b)
    head = ("L", (("e", o), ("t", "/"), ("e", "loop.index")))
    tail = ("L", (("t", "tail="), ("e", "loop.index")))
    if name in ("top", "outer"):
        return (), S
    if name == "for":
        return (), (("For", o, outer, (head,) + S + (tail,), None, None),)
    if name == "if-in-for":
        return (), (("For", o, outer, (head, ("If", (("p", S),), None), tail), None, None),)
    if name == "try":
        return (), (("Try", S, (("ValueError", (("L", (("t", "E"),)),)),)),)
    if name == "for-try":
        return (), (
            ("For", o, outer, (head, ("Try", S, (("ValueError", (("L", (("t", "E="), ("e", "loop.index"))),)),)), tail), None, None),
        )
    if name == "def":
        fn = "g%d" % lvl
        return ((fn, "", S),), (("For", o, outer, (head, ("L", (("e", fn + "()"),)), tail), None, None),)
    if name == "while":
        wv = "wf%d" % lvl
        return (), (("Py", (wv + " = 0",), "inline"), ("While", wv + " < 2", S + (("Py", (wv + " += 1",), "inline"),)))
    if name == "with":
        return (), (("With", "cm(context, 'm') as v", S),)
    raise ValueError(name)


def family_B(tier, dat):
    its = iterables(dat)
    sp_i = 0
    for fr in FRAMES:
        for itr in its:
            for use in USES:
                for ex in EXITS:
                    if itr[0] == "raises" and ex != "exhaust":
                        continue  # the loop body is never reached
                    S = subject(itr, use, ex, inner=(fr == "outer"))
                    defs, body = frame(fr, S, dat)
                    prog = {"defs": defs, "body": body, "page": None}
                    modes = MODES if (tier != "quick" or fr in ("top", "for")) else ["on"]
                    for mode in modes:
                        yield ("B-loops", prog, mode, [spelling(sp_i % 16)])
                        sp_i += 1
    if True:
        its2 = its if tier != "quick" else [i for i in its if i[0] in ("three", "raises")]
        uses2 = USES if tier != "quick" else ["index", "parent", "index+after"]
        for f1 in FRAMES:
            for f2 in FRAMES:
                if f2 == "outer":
                    continue
                for itr in its2:
                    for use in uses2:
                        for ex in EXITS:
                            if itr[0] == "raises" and ex != "exhaust":
                                continue
                            S = subject(itr, use, ex, inner=(f1 == "outer"))
                            d1, b1 = frame(f1, S, dat, 1)
                            d2, b2 = frame(f2, b1, dat, 2)
                            prog = {"defs": d1 + d2, "body": b2, "page": None}
                            yield ("B-loops2", prog, "on", [spelling(sp_i % 16)])
                            sp_i += 1


# B2: where `loop` is mentioned


def use_sites(dat):
    """name -> (defs needed, statements placed in the subject loop body)"""
    L = lambda *p: ("L", tuple(p))  # noqa
    return [
        ("expr", (), (L(("e", "loop.index")),)),
        ("if-cond", (), (("If", (("loop.first", (L(("t", "F")),)),), (L(("t", "N")),)),)),
        ("elif-cond", (), (("If", (("q", ()), ("loop.first", (L(("t", "F")),))), (L(("t", "N")),)),)),
        ("while-cond", (), (("Py", ("k = 0",), "inline"), ("While", "k <= loop.index", (L(("t", "W")), ("Py", ("k += 1",), "inline"))))),
        ("with-expr", (), (("With", "cm(context, str(loop.index)) as v", ()),)),
        ("py-block", (), (("Py", ("k = loop.index",), "inline"), L(("e", "k")))),
        ("inner-iterable", (), (("For", "j", "range(loop.index + 1)", (L(("e", "j")),), None, None),)),
        ("call-arg", (("h", "a", (L(("t", "["), ("e", "a"), ("t", "]")),)),), (L(("e", "h(loop.index)")),)),
        (
            "calltag-expr",
            (("h", "a", (L(("t", "["), ("e", "a"), ("t", "]")),)),),
            (("Raw", '<%call expr="h(loop.index)"></%call>{nl}', ("__o(str(h(loop.index)))", "__o('{nl}')"), "call-tag-expression"),),
        ),
        (
            "nstag-attr",
            (("h", "a", (L(("t", "["), ("e", "a"), ("t", "]")),)),),
            (("Raw", '<%self:h a="${loop.index}"/>{nl}', ("__o(str(h(a=loop.index)))", "__o('{nl}')"), "namespace-call-attribute"),),
        ),
        (
            "calltag-body",
            (("hb", "", (("Raw", "(${caller.body()}){nl}", ("__o('(')", "__o(str(__cbstack[-1]()))", "__o(')')", "__o('{nl}')")),)),),
            (
                (
                    "Raw",
                    '<%call expr="hb()">${loop.index}</%call>{nl}',
                    (
                        "__cbstack.append(lambda: (__o(str(loop.index)), '')[1])",
                        "__o(str(hb()))",
                        "__cbstack.pop()",
                        "__o('{nl}')",
                    ),
                    "call-tag-body",
                ),
            ),
        ),
        (
            "anon-block",
            (),
            (("Raw", "<%block>${loop.index}</%block>{nl}", ("__o(str(loop.index))", "__o('{nl}')"), "anonymous-block"),),
        ),
    ]


def family_B2(tier, dat):
    its = iterables(dat)
    if tier == "quick":
        its = [i for i in its if i[0] in ("three", "gen")]
        frames = ["top", "for"]
        modes = ["on", "page"]
    else:
        frames = FRAMES
        modes = MODES
    k = 0
    for name, defs, stmts in use_sites(dat):
        for fr in frames:
            for itr in its:
                for note in (None, "c", "c: d"):
                    S = (("For", "i", itr[1], (("L", (("e", "i"),)),) + stmts, None, note),)
                    if fr == "outer":
                        S = (("For", "i", itr[1], (("For", "j", "'xy'", (("L", (("e", "j"),)),) + stmts, None, note),), None, None),)
                    d, b = frame(fr, S, dat)
                    prog = {"defs": defs + d, "body": b, "page": None}
                    for mode in modes:
                        yield ("B2-sites", prog, mode, [spelling(k % 16)])
                        k += 1


# --------------------------------------------------------------------------
# family B4: a `% for` that uses `loop`, written inside a nested callable

NESTS = ["block", "call-body", "block-in-def", "call-body-in-def", "nested-def", "namespace-def"]
B4_USES = ["none", "index", "first", "last", "evenodd", "rev", "cycle", "parent"]
B4_EXITS = ["exhaust", "break", "return"]


def family_B4(tier, dat):
    """The loop under test sits in an anonymous <%block>, in the body of a <%call>, or in a <%def> nested in a
    <%def>; that nested callable is itself used inside a `% for` of the enclosing callable, which mentions
    `loop` or not.  Both loops are probed.  Blocks and call bodies are closures of the enclosing callable, so
    `loop.parent` of the inner loop is the enclosing loop; for a nested def only the inner loop's own
    attributes are read.  The nested callable never reads the enclosing `loop` outside its own `% for`
    (Python makes `loop` its local there)."""
    a, b, c = dat["items"]
    L = lambda *p: ("L", tuple(p))  # noqa
    wrap = ("wrap", "", (("Raw", "{${caller.body()}}{nl}", ("__o('{')", "__o(str(__cbstack[-1]()))", "__o('}')", "__o('{nl}')")),))
    its = [i for i in iterables(dat) if i[0] in (("three", "str", "gen") if tier == "quick" else ("empty", "one", "three", "str", "gen", "range", "tuple"))]
    modes = ["on", "page"] if tier == "quick" else MODES
    outer_it = "[%d0, %d0]" % (a, b)
    k = 0
    for nest in NESTS:
        for outer_uses in (True, False):
            for itr in its:
                for use in B4_USES:
                    if use == "parent" and nest in ("nested-def", "namespace-def"):
                        continue
                    if use == "parent" and not outer_uses:
                        # the inner loop's parent is then the only mention of the enclosing loop: kept, it is
                        # exactly the "mentioned only inside a nested callable" situation
                        pass
                    for ex in B4_EXITS:
                        inner = subject(itr, use, ex)[:1]  # the `% for` only, no read after it
                        inner = (("For", "b1", inner[0][2], _retarget(inner[0][3], "b1"), None, None),)
                        head = L(("e", "o"), ("t", "/"), ("e", "loop.index")) if outer_uses else L(("e", "o"))
                        tail = L(("t", "t="), ("e", "loop.index")) if outer_uses else L(("t", "t"))
                        defs = ()
                        if nest == "block":
                            body = (("For", "o", outer_it, (head, ("Block", inner), tail), None, None),)
                        elif nest == "call-body":
                            defs = (wrap,)
                            body = (("For", "o", outer_it, (head, ("CallBody", "wrap()", inner), tail), None, None),)
                        elif nest == "block-in-def":
                            defs = (("od", "", (("For", "o", outer_it, (head, ("Block", inner), tail), None, None),)),)
                            body = (L(("e", "od()")),)
                        elif nest == "call-body-in-def":
                            defs = (wrap, ("od", "", (("For", "o", outer_it, (head, ("CallBody", "wrap()", inner), tail), None, None),)))
                            body = (L(("e", "od()")),)
                        elif nest == "namespace-def":
                            # a def written inside a <%namespace name=...> tag of the body, called inside a `% for` of the body
                            body = (("NsDef", "nsx", "nf", "", inner), ("For", "o", outer_it, (head, L(("e", "nsx.nf()")), tail), None, None))
                        else:
                            defs = (
                                (
                                    "od",
                                    "",
                                    (("NDef", "inner", "", inner), ("For", "o", outer_it, (head, L(("e", "inner()")), tail), None, None)),
                                ),
                            )
                            body = (L(("e", "od()")),)
                        prog = {"defs": defs, "body": body, "page": None}
                        for mode in modes:
                            yield ("B4-nested", prog, mode, [spelling(k % 16)])
                            k += 1


def _retarget(body, name):
    """rename the loop target i -> name in the statements made by subject()"""
    import re

    pat = re.compile(r"\bi\b")

    def fix(s):
        if s[0] == "L":
            return ("L", tuple((kd, pat.sub(name, v) if kd == "e" else v) for kd, v in s[1]))
        if s[0] == "If":
            return ("If", tuple((pat.sub(name, cnd), tuple(fix(x) for x in bd)) for cnd, bd in s[1]), s[2])
        return s

    return tuple(fix(s) for s in body)


# --------------------------------------------------------------------------
# family B3: the iterated list changes length while the `% for` over it runs

MUTATIONS = ["none", "append-bounded", "extend-first", "pop-first", "del-front-first", "clear-second", "insert-front-first"]
LEN_READS = ["last", "rev", "last+rev"]
READ_PLACES = ["after", "before+after", "before"]


def family_B3(tier, dat):
    """A work list made by the body itself (fresh at every render) is iterated by `% for`; the loop body
    appends to it / trims it, and reads loop.last / loop.reverse_index before and/or after the change.
    The equivalent Python `for` keeps going over appended items and stops early on a trimmed list; `loop`
    has to describe that loop: last == (index == len(list) - 1) with the length the list has when read."""
    a, b, c = dat["items"]
    L = lambda *p: ("L", tuple(p))  # noqa

    def mutation(name):
        if name == "none":
            return ()
        lines = {
            "append-bounded": ("if len(work) < 5:", "    work.append(i + 10)"),
            "extend-first": ("if loop.index == 0:", "    work.extend([%d, %d])" % (c + 20, c + 21)),
            "pop-first": ("if loop.index == 0 and len(work) > 1:", "    work.pop()"),
            "del-front-first": ("if loop.index == 0:", "    del work[0]"),
            "clear-second": ("if loop.index == 1:", "    del work[:]"),
            "insert-front-first": ("if loop.index == 0:", "    work.insert(0, %d)" % (c + 30)),
        }[name]
        return (("Py", lines, "block"),)

    def read(kind, tag):
        e = {"last": ["loop.last"], "rev": ["loop.reverse_index"], "last+rev": ["loop.last", "loop.reverse_index"]}[kind]
        pieces = [("t", tag), ("e", "loop.index")]
        for x in e:
            pieces += [("t", ":"), ("e", x)]
        return L(*pieces)

    inits = [(a,), (a, b), (a, b, c)]
    if tier == "quick":
        frames, modes = ["top", "for", "def"], ["on", "page"]
    else:
        frames, modes = [f for f in FRAMES if f != "outer"], MODES
    k = 0
    for fr in frames:
        for init in inits:
            for mut in MUTATIONS:
                for rd in LEN_READS:
                    for place in READ_PLACES:
                        body = (L(("e", "i")),)
                        if "before" in place:
                            body += (read(rd, "b"),)
                        body += mutation(mut)
                        if "after" in place:
                            body += (read(rd, "a"),)
                        S = (
                            ("Py", ("work = [%s]" % ", ".join(str(v) for v in init),), "inline"),
                            ("For", "i", "work", body, None, None),
                            L(("t", "n="), ("e", "len(work)")),
                        )
                        d, bdy = frame(fr, S, dat)
                        prog = {"defs": d, "body": bdy, "page": None}
                        for mode in modes:
                            yield ("B3-mutating", prog, mode, [spelling(k % 16)])
                            k += 1


# --------------------------------------------------------------------------
# family B5: loop attributes read on SOME iterations only (a read gated by the item, placed after a continue, in one
# arm of a conditional expression, several times in one iteration, from an inner loop that is sometimes empty)

B5_READS = [
    "loop.index", "loop.first", "loop.last", "loop.even", "loop.odd", "loop.reverse_index",
    "loop.cycle('p', 'q')", "loop.cycle('p', 'q', 'r')", "loop.cycle('p')",
    "loop.parent.index", "loop.parent.cycle('u', 'v')", "loop.parent.last",
]
B5_GATES = ["always", "not-first", "only-last", "not-second", "second-and-fourth", "after-continue", "conditional-expression", "twice", "twice-gated", "in-inner-loop", "else-arm"]


def family_B5(tier, dat):
    a, b, c = dat["items"]
    d = a + b + c + 100
    L = lambda *p: ("L", tuple(p))  # noqa
    its = [("four", "[%d, %d, %d, %d]" % (a, b, c, d)), ("gen", "(z for z in [%d, %d, %d, %d])" % (a, b, c, d))]
    if tier == "quick":
        frames, modes = ["top", "for", "def"], ["on", "page"]
    else:
        frames, modes = [f for f in FRAMES if f != "outer"], MODES
    k = 0
    for fr in frames:
        for iname, itr in its:
            for rd in B5_READS:
                for gate in B5_GATES:
                    read = L(("e", "i"), ("t", "="), ("e", rd))
                    if gate == "always":
                        body = (read,)
                    elif gate == "not-first":
                        body = (("If", (("i != %d" % a, (read,)),), None),)
                    elif gate == "only-last":
                        body = (("If", (("i == %d" % d, (read,)),), None),)
                    elif gate == "not-second":
                        body = (("If", (("i != %d" % b, (read,)),), None),)
                    elif gate == "second-and-fourth":
                        body = (("If", (("i in (%d, %d)" % (b, d), (read,)),), None),)
                    elif gate == "after-continue":
                        body = (("If", (("i == %d" % b, (("Py", ("continue",), "inline"),)),), None), read)
                    elif gate == "conditional-expression":
                        body = (L(("e", "i"), ("t", "="), ("e", "(%s) if i != %d else '-'" % (rd, b))),)
                    elif gate == "twice":
                        body = (read, L(("t", "again="), ("e", rd)))
                    elif gate == "twice-gated":
                        body = (("If", (("i != %d" % a, (read, L(("t", "again="), ("e", rd)))),), None),)
                    elif gate == "in-inner-loop":
                        inner_rd = rd.replace("loop.", "loop.parent.", 1)
                        body = (("For", "j", "range(0 if i == %d else 2)" % b, (L(("e", "j"), ("t", ":"), ("e", inner_rd)),), None, None),)
                    else:
                        body = (("If", (("i == %d" % a, (L(("t", "skip")),)),), (read,)),)
                    S = (("For", "i", itr, body, None, None),)
                    dd, bdy = frame(fr, S, dat)
                    prog = {"defs": dd, "body": bdy, "page": None}
                    for mode in modes:
                        yield ("B5-sparse-reads", prog, mode, [spelling(k % 16)])
                        k += 1


# --------------------------------------------------------------------------
# family F: a <% %> block that ENDS a clause body (its line break consumed by a backslash, so that the next thing in the
# source is the following clause keyword or the end line), in every clause of if/elif/else, for/else, while, try/except

def family_F(tier, dat):
    L = lambda *p: ("L", tuple(p))  # noqa
    tx = dat["texts"]
    P = lambda code: ("Py", (code,), "inline-cont")  # noqa
    frames = ["top", "for", "def"] if tier == "quick" else [f for f in FRAMES if f != "outer"]
    modes = ["on", "page"] if tier == "quick" else MODES
    shapes = []
    for only in (False, True):  # the block is the only statement of the clause / follows a text line
        pre = () if only else (L(("t", tx[0])),)
        shapes.append(("if-elif-else", (("If", (("x == 'no'", pre + (P("k1 = 1"),)), ("q", pre + (P("k2 = 2"),)), ("p", pre + (P("k3 = 3"),))), pre + (P("k4 = 4"),)), L(("t", "after")))))
        shapes.append(("if-else", (("If", (("p", pre + (P("k1 = 1"),)),), pre + (P("k2 = 2"),)), L(("e", "k1")))))
        shapes.append(("else-taken", (("If", (("q", pre + (P("k1 = 1"),)),), pre + (P("k2 = 2"),)), L(("e", "k2")))))
        shapes.append(("for-else", (("For", "i", "[1, 2]", pre + (P("k1 = i"),), pre + (P("k2 = 9"),), None), L(("e", "k1"), ("e", "k2")))))
        shapes.append(("while", (("Py", ("w = 0",), "inline"), ("While", "w < 2", pre + (P("w += 1"),)), L(("e", "w")))))
        shapes.append(("try-except", (("Try", pre + (P("k1 = int('zz')"),), (("ValueError", pre + (P("k2 = 5"),)),)), L(("e", "k2")))))
        shapes.append(("try-except-not-raised", (("Try", pre + (P("k1 = int('7')"),), (("ValueError", pre + (P("k1 = 5"),)),)), L(("e", "k1")))))
        shapes.append(("nested-if-in-for", (("For", "i", "[1, 2]", (("If", (("i == 1", pre + (P("k1 = 1"),)),), pre + (P("k1 = 2"),)), L(("e", "k1"))), None, None),)))
    k = 0
    for name, S in shapes:
        for fr in frames:
            d, b = frame(fr, S, dat)
            prog = {"defs": d, "body": b, "page": None}
            for mode in modes:
                for sp in range(4):
                    yield ("F-block-ends-clause", prog, mode, [spelling((k + 5 * sp) % 16)])
                k += 1


# --------------------------------------------------------------------------
# family C: spellings


def skeletons(dat, maxlines):
    """compound statements whose bodies are one text line / empty / comment / doc, up to two statements"""
    T = ("L", (("t", IR.T_),))
    bodies = [(T,), (), (("C", "n"),), (("Doc", "d"),)]
    it = alphabet(dat)["iter"]
    singles = []
    for b1 in bodies:
        singles.append(("If", (("p", b1),), None))
        singles.append(("For", "i", it, b1, None, None))
        singles.append(("For", "i", it, b1, None, "c"))
        singles.append(("With", "cm(context, 'm') as v", b1))
        singles.append(("__While", "w1", b1))
        for b2 in bodies:
            singles.append(("If", (("q", b1),), b2))
            singles.append(("If", (("q", b1), ("p", b2)), None))
            singles.append(("For", "i", it, b1, b2, None))
            singles.append(("Try", b1 + (("Py", ("raise ValueError('v')",), "inline"),), (("ValueError", b2),)))
    for note in ("c", "c: d"):
        n_ = IR.CM + note
        singles.append(("If", (("p" + n_, (T,)),), None))
        singles.append(("If", (("q" + n_, (T,)), ("p" + n_, (T,))), None))
        singles.append(("For", "i", it, (T,), None, note))
        singles.append(("With", "cm(context, 'm') as v" + n_, (T,)))
        singles.append(("While", "q" + n_, (T,)))
        singles.append(("Try", (("Py", ("raise ValueError('v')",), "inline"),), (("ValueError" + n_, (T,)),)))
        singles.append(("Try", (("Py", ("raise ValueError('v')",), "inline"),), (("ValueError as e" + n_, (T,)),)))
    for b1 in bodies[:2]:
        for b2 in bodies[:2]:
            for b3 in bodies[:2]:
                singles.append(("If", (("q", b1), ("q", b2)), b3))
                singles.append(("If", (("q", b1), ("q", b2), ("p", b3)), None))
    seen = set()
    out = []

    def add(body):
        prog = IR.finish_program(body, dat["texts"])
        n = IR.count_lines(prog)[0]
        key = repr(prog)
        if n <= maxlines and key not in seen:
            seen.add(key)
            out.append((n, prog))

    for s in singles:
        add((s,))
        add((T, s, T))
    # nest and sequence pairs of the two-line constructs
    two = [s for s in singles if s[0] in ("If", "For", "With", "__While") and IR.count_lines(IR.finish_program((s,), ["t"]))[0] == 2]
    holes = [s for s in two if (s[0] == "If" and s[1][0][1] == ()) or (s[0] == "For" and s[3] == () and s[5] is None) or (s[0] in ("With", "__While") and s[2] == ())]
    for outer in holes:
        for inner in two:
            if outer[0] == "__While" and inner[0] == "__While":
                inner = ("__While", "w2", inner[2])
            if outer[0] == "If":
                add((("If", (("p", (inner,)),), None),))
            elif outer[0] == "For":
                add((("For", outer[1], outer[2], (inner,), None, None),))
            elif outer[0] == "With":
                add((("With", outer[1], (inner,)),))
            else:
                add((("__While", "w1", (inner,)),))
            a, b = outer, inner
            if a[0] == "__While" and b[0] == "__While":
                continue
            add((a, b))
    out.sort(key=lambda x: x[0])
    return out


def cover16():
    return [(a, b) for a in range(4) for b in range(4)]


def family_C(tier, dat):
    full_n = 3 if tier == "quick" else 4
    max_n = 6 if tier == "quick" else 8
    for n, prog in skeletons(dat, max_n):
        sps = []
        if n <= full_n:
            for combo in itertools.product(IR.IND, repeat=n):
                for nl in ("\n", "\r\n") if tier != "quick" else (("\n", "\r\n")[(len(sps) // 5) % 2],):
                    sps.append(IR.Spell(nl=nl, ind=list(combo), pct=[("% ", "%", "%  ")[len(sps) % 3]], m=len(sps)))
        else:
            for a, b in cover16():
                for nl in ("\n", "\r\n"):
                    sps.append(IR.Spell(nl=nl, a=a, b=b, pct=["% ", "%"] if (a + b) % 2 else ["% "], m=a))
        yield ("C-spell", prog, "on", sps)


# --------------------------------------------------------------------------
# family D: <% %> blocks


def block_shapes(dat):
    a, b, c = dat["items"]
    w = dat["texts"][0]
    V = "\x00"  # verbatim line marker
    return [
        ("one", ("r = %d" % a,), ["block", "inline"]),
        ("two", ("r = %d" % a, "r += %d" % b), ["block", "close-same-line"]),
        ("if-else", ("if p:", "    r = %d" % a, "else:", "    r = %d" % b), ["block", "close-same-line"]),
        ("if-else-false", ("if q:", "    r = %d" % a, "else:", "    r = %d" % b), ["block"]),
        ("for-if", ("r = 0", "for z in [%d, %d, %d]:" % (a, b, c), "    if z != %d:" % b, "        r += z", "r = r * 2"), ["block"]),
        ("nested-tab", ("r = 0", "for z in [%d, %d]:" % (a, b), "\tif z:", "\t\tr += z"), ["block"]),
        ("comment-first-col0", (V + "# note", "r = %d" % a), ["block"]),
        ("comment-first", ("# note", "r = %d" % a), ["block"]),
        ("comment-shallow", ("r = %d" % a, V + " # less indented", "r += 1"), ["block"]),
        ("blank-lines", ("r = %d" % a, "", V + "   ", "r += 1"), ["block"]),
        ("bracket-continuation", ("r = [%d," % a, V + " %d]" % b), ["block"]),
        ("backslash-continuation", ("r = %d + \\" % a, V + "  %d" % b), ["block"]),
        ("triple-quoted", ("r = '''%s" % w, V + "  k", V + "\tz'''", "r = r + '!'"), ["block"]),
        ("tab-in-literal", ("r = '%s\t%s'" % (w, w),), ["block", "inline"]),
        ("def-in-block", ("def k2(n):", "    return n * 2", "r = k2(%d)" % a), ["block"]),
        ("try-in-block", ("try:", "    r = 1 // 0", "except ZeroDivisionError:", "    r = 'z'"), ["block"]),
        ("while-in-block", ("r = 0", "while r < %d:" % a, "    r += 1"), ["block"]),
        ("write", ("context.write('%s')" % w,), ["block", "inline"]),
    ]


def family_D(tier, dat):
    it = alphabet(dat)["iter"]
    show = ("L", (("t", "r="), ("e", "r")))
    for name, lines, styles in block_shapes(dat):
        for style in styles:
            blk = ("Py", lines, style)
            uses_r = name != "write"
            tailr = (show,) if uses_r else ()
            positions = [
                ("top", (), (blk,) + tailr),
                ("in-if-in-for", (), (("For", "i", it, (("If", (("p", (blk,) + tailr),), None),), None, None),)),
                ("in-def", (("f0", "", (blk,) + tailr),), (("L", (("e", "f0()"),)),)),
                ("in-try-else", (), (("Try", (blk,) + tailr, (("ValueError", ()),)), ("If", (("q", ()),), (blk,) + tailr))),
                ("in-with-in-while", (), (("Py", ("w1 = 0",), "inline"), ("While", "w1 < 1", (("With", "cm(context, 'm') as v", (blk,) + tailr), ("Py", ("w1 += 1",), "inline"))))),
            ]
            for pname, defs, body in positions:
                prog = {"defs": defs, "body": body, "page": None}
                sps = []
                if style == "inline":
                    for nl in ("\n", "\r\n"):
                        sps.append(IR.Spell(nl=nl))
                else:
                    for m in IR.MARGIN:
                        for nl in ("\n", "\r\n"):
                            sps.append(IR.Spell(nl=nl, margin=[m], a=len(sps) % 4))
                yield ("D-blocks", prog, "on", sps)


# --------------------------------------------------------------------------
# family E: try / except forms


def family_E(tier, dat):
    L = lambda *p: ("L", tuple(p))  # noqa
    raisers = [
        ("none", ()),
        ("raise-V", (("Py", ("raise ValueError('v')",), "inline"),)),
        ("raise-K", (("Py", ("raise KeyError('k')",), "inline"),)),
        ("expr-zero", (L(("e", "1 // 0")),)),
        ("expr-boom", (L(("e", "boom('KeyError')")),)),
        ("in-def", (L(("e", "rz()")),)),
    ]
    specs = ["ValueError", "ValueError as e", "(ValueError, KeyError)", "(ValueError, KeyError) as e", "", "Exception as e", "KeyError", "ArithmeticError as e"]
    rz = (("rz", "", (L(("t", "in")), ("Py", ("raise ValueError('v')",), "inline"))),)

    def hbody(spec, tag):
        if " as e" in spec:
            return (L(("t", tag + ":"), ("e", "type(e).__name__")),)
        return (L(("t", tag)),)

    k = 0
    for rname, rs in raisers:
        defs = rz if rname == "in-def" else ()
        for s1 in specs:
            handlers1 = ((s1, hbody(s1, "h1")),)
            cases = [handlers1]
            for s2 in specs:
                if s2 != s1 and s1 != "":  # a bare except must be last (Python rule)
                    cases.append(((s1, hbody(s1, "h1")), (s2, hbody(s2, "h2"))))
            for hs in cases:
                for empty in (False, True):
                    hh = tuple((sp, () if empty else b) for sp, b in hs)
                    t = ("Try", (L(("t", "a")),) + rs + (L(("t", "b")),), hh)
                    for wrap in ("top", "in-for"):
                        body = (t, L(("t", "z")))
                        if wrap == "in-for":
                            body = (("For", "i", alphabet(dat)["iter"], body, None, None),)
                        yield ("E-try", {"defs": defs, "body": body, "page": None}, "on", [spelling(k % 16)])
                        k += 1


FAMILIES = [family_A, family_B, family_B2, family_B3, family_B4, family_B5, family_F, family_C, family_D, family_E]


def all_cases(tier, seed):
    dat = data(seed)
    for f in FAMILIES:
        yield from f(tier, dat)


# --------------------------------------------------------------------------
# module contract

NSHARDS = 32


def plan(tier, seed):
    return [{"tier": tier, "seed": seed, "shard": i, "nshards": NSHARDS} for i in range(NSHARDS)]


def run_job(job):
    st = Stats()
    t0 = time.process_time()
    w0 = time.time()
    ck = Checker(st, job["seed"])
    sh, ns = job["shard"], job["nshards"]
    fam_counts = {}
    for i, item in enumerate(all_cases(job["tier"], job["seed"])):
        if i % ns != sh:
            continue
        if item[0] == "lazy":
            item = item[1]()
        fam, prog, mode, sps = item
        try:
            ck.case(fam, prog, mode, sps)
        except Exception:  # noqa
            import traceback

            st.extra.setdefault("harness_errors", []).append(
                "case %r %r: %s" % (fam, IR.mako_source(with_mode(prog, mode), sps[0])[:300], traceback.format_exc()[-1200:])
            )
            break
        fam_counts[fam] = fam_counts.get(fam, 0) + 1
    st.extra["cases_per_family"] = fam_counts
    st.extra["cpu_s"] = round(time.process_time() - t0, 1)
    st.extra["worker_wall_s"] = round(time.time() - w0, 1)
    return st


def post(tier, seed, st):
    d = data(seed)
    st.extra["data_alphabet"] = {"texts": d["texts"], "items": list(d["items"]), "str": d["str"], "x": d["x"]}


def replay(case):
    core.bind_repo()
    ctx = ENV.resolve_ctx(case["ctx"])
    exp = IR.run_reference(case["ref"], ctx)
    obs = run_mako(case["src"], case["tk"], ENV.resolve_ctx(case["ctx"]))
    if agree(exp, obs):
        return True, "holds: %r" % (obs,)
    return False, "reproduced: template %r\n expected (CPython on the reference function) %r\n observed %r" % (case["src"], exp, obs)


# --------------------------------------------------------------------------
# corpus for the cross-path property


def _has_known_footprint(prog):
    for s, _ in _walk(prog):
        if s[0] == "Try" and len(s[2]) >= 2:
            return True
        if s[0] == "For" and (not IR._simple(s[2]) or (s[5] and ":" in s[5])):
            return True
        if s[0] == "Raw":
            return True
        if s[0] == "Py" and any("\t" in l.lstrip("\t \x00") for l in s[1]):
            return True
    return False


def corpus(limit=400):
    """<= limit representative programs of the smallest non-trivial bound: deterministic, simplest first,
    spread over all construct kinds.  expected = the reference (CPython) output, None where the reference
    run ends in an exception."""
    seed = 0
    dat = data(seed)
    buckets = {}
    order = []

    def offer(fam, prog, mode, sps):
        prog = with_mode(prog, mode)
        if _has_known_footprint(prog):
            return
        ks, depth = IR.kinds(prog)
        key = (fam,) + tuple(sorted(k for k in ks if not k.startswith(("text", "expr", "comment", "py:"))))
        if key not in buckets:
            buckets[key] = []
            order.append(key)
        if len(buckets[key]) < 40:
            buckets[key].append((prog, mode, sps[0]))

    g = IR.Gen(3, alphabet(dat, True))
    idx = 0
    for w in range(1, 4):
        for b in g.iter_top(w):
            offer("A", IR.finish_program(b, dat["texts"]), MODES[(idx // 16) % 4], [spelling(idx % 16)])
            idx += 1
    for fam in (family_B, family_B2, family_D, family_E):
        for f, prog, mode, sps in fam("quick", dat):
            offer(f, prog, mode, sps)
    out = []
    depth_i = 0
    while len(out) < limit:
        progressed = False
        for key in order:
            lst = buckets[key]
            if depth_i < len(lst):
                progressed = True
                prog, mode, sp = lst[depth_i]
                loop_on = mode in ("on", "page")
                cspec = ctx_spec(mode, dat)
                exp = IR.run_reference(IR.ref_source(prog, loop_on, sp.nl), ENV.resolve_ctx(cspec))
                uri = "c03_%03d.mako" % len(out)
                out.append(
                    {
                        "files": {uri: IR.mako_source(prog, sp)},
                        "main": uri,
                        "ctx": cspec,
                        "expected": exp[1] if exp[0] == "ok" else None,
                        "template_kwargs": mode_kwargs(mode),
                    }
                )
                if len(out) >= limit:
                    break
        if not progressed:
            break
        depth_i += 1
    return out
