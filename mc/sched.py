"""E4: controlled scheduling of real threads (baton passing) and the
iterative-context-bounding explorer.

Each logical thread is a real threading.Thread that runs only while it holds
the baton.  `yield_point(label)` returns the baton to the scheduler, which
picks the next thread from the enabled set according to the choice list being
replayed (then always choice 0 = keep running the current thread).  Blocking
operations are modelled by SchedLock: a thread waiting for a held lock is not
enabled; "no enabled thread while some are unfinished" is a deadlock.
"""

import sys
import threading


class Deadlock(Exception):
    pass


class ReplayDivergence(Exception):
    pass


class _Kill(BaseException):
    """unwinds logical threads left over after a deadlock / horizon"""


class Execution:
    def __init__(self):
        self.points = []  # per decision: dict(enabled=[ids], running, running_enabled, chosen, label)
        self.choices = []
        self.results = {}  # thread id -> ("ok", value) | ("exc", exception)
        self.deadlock = None
        self.horizon = False
        self.trace = []  # (thread id, label) in execution order

    def preemptions_before(self, i):
        n = 0
        for p in self.points[:i]:
            if p["running_enabled"] and p["chosen"] != 0:
                n += 1
        return n

    def switches(self):
        n = 0
        prev = None
        for p in self.points:
            cur = p["enabled"][p["chosen"]]
            if prev is not None and cur != prev:
                n += 1
            prev = cur
        return n


class Scheduler:
    def __init__(self, prefix=(), horizon=20000, trace_files=None, record_trace=False, trace_names=None, trace_calls=False):
        self.prefix = list(prefix)
        self.horizon = horizon
        self.trace_files = trace_files  # tuple of path prefixes whose lines are yield points (fine mode)
        self.trace_names = trace_names  # optional set of function names to which line-level points are restricted
        self.trace_calls = trace_calls  # yield at every function entry in the traced files instead of at every line
        self.record_trace = record_trace
        self.threads = []
        self.main_sem = threading.Semaphore(0)
        self.current = None
        self.ex = Execution()
        self.killing = False
        self._tls = threading.local()

    # ---- API used by harness bodies / proxies
    def spawn(self, fn, name=None):
        t = _LThread(self, len(self.threads), fn, name)
        self.threads.append(t)
        return t

    def me(self):
        return getattr(self._tls, "lt", None)

    def yield_point(self, label=""):
        lt = self.me()
        if lt is None:
            return  # not a logical thread (set-up code): nothing to schedule
        if self.killing:
            raise _Kill()
        lt.label = label
        self.main_sem.release()
        lt.sem.acquire()
        if self.killing:
            raise _Kill()

    def lock(self):
        return SchedLock(self)

    # ---- main loop
    def run(self):
        for t in self.threads:
            t.start()
        # every thread parks at its start point first
        for _ in self.threads:
            self.main_sem.acquire()
        steps = 0
        cur = None
        while True:
            enabled = [t for t in self.threads if t.enabled()]
            unfinished = [t for t in self.threads if not t.done]
            if not unfinished:
                break
            if not enabled:
                self.ex.deadlock = [(t.id, t.label, "blocked") for t in unfinished]
                break
            steps += 1
            if steps > self.horizon:
                self.ex.horizon = True
                break
            ids = sorted(t.id for t in enabled)
            running_enabled = cur is not None and cur.id in ids
            if running_enabled:
                ids.remove(cur.id)
                ids.insert(0, cur.id)
            k = len(self.ex.points)
            if len(ids) == 1:
                chosen = 0
                if k < len(self.prefix) and self.prefix[k] != 0:
                    raise ReplayDivergence("choice %d=%d but only one thread enabled" % (k, self.prefix[k]))
            elif k < len(self.prefix):
                chosen = self.prefix[k]
                if chosen >= len(ids):
                    raise ReplayDivergence("choice %d=%d out of range %d" % (k, chosen, len(ids)))
            else:
                chosen = 0
            self.ex.points.append(
                {"enabled": ids, "running": cur.id if cur else None, "running_enabled": running_enabled, "chosen": chosen,
                 "label": [self.threads[i].label for i in ids]}
            )
            self.ex.choices.append(chosen)
            nxt = self.threads[ids[chosen]]
            if self.record_trace:
                self.ex.trace.append((nxt.id, nxt.label))
            cur = nxt
            nxt.sem.release()
            self.main_sem.acquire()
        # tear down anything left (deadlock / horizon)
        left = [t for t in self.threads if not t.done]
        if left:
            self.killing = True
            for t in left:
                t.sem.release()
            for t in left:
                t.thread.join(5)
        for t in self.threads:
            t.thread.join(5)
            self.ex.results[t.id] = t.result
        return self.ex


class _LThread:
    def __init__(self, sched, id_, fn, name):
        self.sched = sched
        self.id = id_
        self.fn = fn
        self.name = name or "T%d" % id_
        self.sem = threading.Semaphore(0)
        self.done = False
        self.blocked_on = None
        self.label = "start"
        self.result = None
        self.thread = threading.Thread(target=self._body, daemon=True)

    def start(self):
        self.thread.start()

    def enabled(self):
        if self.done:
            return False
        if self.blocked_on is not None and self.blocked_on.holder is not None:
            return False
        return True

    def _body(self):
        s = self.sched
        s._tls.lt = self
        s.main_sem.release()  # parked at start
        self.sem.acquire()
        tracer = None
        if s.trace_files:
            tracer = _make_tracer(s)
            sys.settrace(tracer)
        try:
            if s.killing:
                raise _Kill()
            self.result = ("ok", self.fn())
        except _Kill:
            self.result = ("killed", None)
        except BaseException as e:  # noqa
            self.result = ("exc", e)
        finally:
            if tracer:
                sys.settrace(None)
            self.done = True
            self.label = "done"
            s.main_sem.release()


def _make_tracer(s):
    files = s.trace_files
    names = s.trace_names

    def local(frame, event, arg):
        if event == "line":
            s.yield_point("%s:%d" % (frame.f_code.co_filename.rsplit("/", 1)[-1], frame.f_lineno))
        return local

    def tracer(frame, event, arg):
        if event != "call":
            return None
        fn = frame.f_code.co_filename
        if fn.startswith(files) and (names is None or frame.f_code.co_name in names):
            return local
        return None

    def call_tracer(frame, event, arg):
        if event != "call":
            return None
        code = frame.f_code
        if code.co_filename.startswith(files) and (names is None or code.co_name in names):
            s.yield_point("call %s:%s" % (code.co_filename.rsplit("/", 1)[-1], code.co_name))
        return None

    return call_tracer if s.trace_calls else tracer


class SchedLock:
    """drop-in for threading.Lock under the scheduler"""

    def __init__(self, sched):
        self.sched = sched
        self.holder = None

    def acquire(self, blocking=True, timeout=-1):
        s = self.sched
        lt = s.me()
        if lt is None:
            assert self.holder is None
            self.holder = "main"
            return True
        s.yield_point("lock.acquire")
        while self.holder is not None:
            lt.blocked_on = self
            s.yield_point("lock.blocked")
        lt.blocked_on = None
        self.holder = lt.id
        return True

    def release(self):
        lt = self.sched.me()
        if self.holder is None:
            raise RuntimeError("release unlocked lock")
        self.holder = None
        if lt is not None:
            self.sched.yield_point("lock.release")

    def locked(self):
        return self.holder is not None

    __enter__ = acquire

    def __exit__(self, *a):
        self.release()


class SchedRLock(SchedLock):
    """drop-in for threading.RLock: the holder may acquire it again"""

    def __init__(self, sched):
        SchedLock.__init__(self, sched)
        self.depth = 0

    def acquire(self, blocking=True, timeout=-1):
        lt = self.sched.me()
        me = "main" if lt is None else lt.id
        if self.holder == me and self.depth > 0:
            self.depth += 1
            return True
        SchedLock.acquire(self, blocking, timeout)
        self.depth = 1
        return True

    def release(self):
        if self.depth > 1:
            self.depth -= 1
            return
        self.depth = 0
        SchedLock.release(self)

    __enter__ = acquire

    def __exit__(self, *a):
        self.release()


# --------------------------------------------------------------------------
# explorer


def explore(run_one, check, bound, prefix=(), stats=None, max_execs=None):
    """Iterative context bounding below `prefix`.

    run_one(prefix) -> Execution (fresh harness each time)
    check(execution) -> None
    bound = maximum number of preemptions (None = unbounded: all interleavings)
    Returns number of executions.
    """
    stack = [list(prefix)]
    n = 0
    capped = False
    while stack:
        pre = stack.pop()
        x = run_one(pre)
        n += 1
        check(x)
        if max_execs is not None and n >= max_execs:
            capped = True
            break
        for i in range(len(pre), len(x.points)):
            p = x.points[i]
            if len(p["enabled"]) < 2:
                continue
            cost = x.preemptions_before(i)
            if p["running_enabled"]:
                cost += 1
            if bound is not None and cost > bound:
                continue
            for alt in range(1, len(p["enabled"])):
                stack.append(x.choices[:i] + [alt])
    return n, capped


def first_level(x, bound, prefix_len=0):
    """the alternatives directly below execution x (for distributing sub-trees over workers)"""
    out = []
    for i in range(prefix_len, len(x.points)):
        p = x.points[i]
        if len(p["enabled"]) < 2:
            continue
        cost = x.preemptions_before(i) + (1 if p["running_enabled"] else 0)
        if bound is not None and cost > bound:
            continue
        for alt in range(1, len(p["enabled"])):
            out.append(x.choices[:i] + [alt])
    return out
