"""C06 family "direct": two hand-built situations with closed forms.

  local-in-inherit   a NON-LEAF template chooses its parent by an expression that consults `local` (its module / its
                     attributes / its uri): while the chain is built `local` is the template the expression is written in
  handler-chain      a page of an inheritance chain raises in its body; the error_handler renders ANOTHER inheriting
                     template (error page -> layout) with render_context on the Context it was given: that render is the
                     error page's own chain - the base-most ancestor's body, every named block once at its position

Nothing here imports mako at import time.
"""


def cases():
    for how in ("module", "attr", "uri"):
        for depth in (3, 4):
            for leafskin in ("leaf-value", "same-value"):
                yield {"fam": "direct", "kind": "local-in-inherit", "how": how, "depth": depth, "leafskin": leafskin}
    for shared in ("same-layout", "other-layout-same-block-names", "other-layout-other-names"):
        for where in ("body", "block", "def-called-from-block"):
            for depth in (2, 3):
                yield {"fam": "direct", "kind": "handler-chain", "shared": shared, "where": where, "depth": depth}


def run(c):
    from mako.lookup import TemplateLookup
    from mako.runtime import Context
    from mako.util import FastEncodingBuffer

    if c["kind"] == "local-in-inherit":
        how, depth = c["how"], c["depth"]
        expr = {"module": "'/base-' + context['local'].module.skin + '.html'",
                "attr": "'/base-' + context['local'].attr.skin + '.html'",
                "uri": "'/base-' + ('a' if context['local'].uri == '/mid.html' else 'x') + '.html'"}[how]
        leafskin = "x" if c["leafskin"] == "leaf-value" else "a"
        files = {
            "/base-a.html": "A[${next.body()}]",
            "/base-x.html": "WRONG[${next.body()}]",
            "/mid.html": "<%! skin = 'a' %><%inherit file=\"${" + expr + "}\"/>MID(${next.body()})",
        }
        if depth == 3:
            files["/leaf.html"] = "<%! skin = '" + leafskin + "' %><%inherit file=\"/mid.html\"/>LEAF"
            exp = "A[MID(LEAF)]"
        else:
            files["/mid2.html"] = "<%! skin = '" + leafskin + "' %><%inherit file=\"/mid.html\"/>M2(${next.body()})"
            files["/leaf.html"] = "<%! skin = '" + leafskin + "' %><%inherit file=\"/mid2.html\"/>LEAF"
            exp = "A[MID(M2(LEAF))]"
        lk = TemplateLookup()
        for u, t in files.items():
            lk.put_string(u, t)
        outs = []
        for _ in (1, 2):
            try:
                outs.append(lk.get_template("/leaf.html").render_unicode())
            except Exception as e:  # noqa
                outs.append("%s: %s" % (type(e).__name__, str(e)[:120]))
        if outs != [exp, exp]:
            return ("direct:local-in-inherit:%s" % how, "while the chain is built, `local` in a template's inherit expression is that template", [exp, exp], outs)
        return None
    # handler-chain
    shared, where, depth = c["shared"], c["where"], c["depth"]
    layout = "L[<%block name=\"title\">lt</%block>|<%block name=\"content\">lc</%block>|${self.body()}|<%block name=\"foot\">lf</%block>]"
    layout2 = layout.replace("L[", "E[") if shared != "other-layout-other-names" else "E[<%block name=\"etitle\">et</%block>|<%block name=\"econtent\">ec</%block>|${self.body()}]"
    files = {"/layout.html": layout, "/elayout.html": layout2}
    fail = {"body": "pb${boom()}", "block": "<%block name=\"content\">pc${boom()}</%block>pb",
            "def-called-from-block": "<%def name=\"d()\">${boom()}</%def><%block name=\"content\">pc${d()}</%block>pb"}[where]
    if depth == 2:
        files["/page.html"] = "<%inherit file=\"/layout.html\"/><%block name=\"title\">pt</%block>" + fail
    else:
        files["/section.html"] = "<%inherit file=\"/layout.html\"/><%block name=\"foot\">sf</%block>S(${next.body()})"
        files["/page.html"] = "<%inherit file=\"/section.html\"/><%block name=\"title\">pt</%block>" + fail
    elay = "/layout.html" if shared == "same-layout" else "/elayout.html"
    if shared == "other-layout-other-names":
        files["/err.html"] = "<%inherit file=\"" + elay + "\"/><%block name=\"etitle\">ERR</%block><%block name=\"econtent\">oops</%block>eb"
    else:
        files["/err.html"] = "<%inherit file=\"" + elay + "\"/><%block name=\"title\">ERR</%block><%block name=\"content\">oops</%block>eb"
    got = {}

    def boom():
        raise ValueError("planted")

    def eh(context, error):
        errt = context.lookup.get_template("/err.html")
        context._push_buffer()
        try:
            errt.render_context(context)
        finally:
            got["handler"] = context._pop_buffer().getvalue()
        return True

    lk = TemplateLookup(error_handler=eh)
    for u, t in files.items():
        lk.put_string(u, t)
    want = TemplateLookup()
    for u, t in files.items():
        want.put_string(u, t)
    exp = want.get_template("/err.html").render_unicode()
    closed = ("L[ERR|oops|eb|lf]" if shared == "same-layout" else "E[ERR|oops|eb|lf]") if shared != "other-layout-other-names" else "E[ERR|oops|eb]"
    if exp != closed:
        return ("direct:handler-chain:error page alone", "the error page renders as its chain says", closed, exp)
    for _ in (1, 2):
        got.clear()
        buf = FastEncodingBuffer()
        try:
            lk.get_template("/page.html").render_context(Context(buf, boom=boom))
        except Exception as e:  # noqa
            return ("direct:handler-chain:raises %s" % type(e).__name__, "an error_handler that returns True ends the render normally", "no exception", "%s: %s" % (type(e).__name__, str(e)[:120]))
        if got.get("handler") != closed:
            return ("direct:handler-chain:%s" % shared, "a chain rendered by the error handler on the Context it was given is that template's own chain (blocks once, at their positions)", closed, got.get("handler"))
    return None
