"""E2: explicit-state breadth-first exploration of operation histories.

A state is represented by its shortest witness history and rebuilt by replay on
a fresh real object; the canonical key decides identity.  Level-synchronous,
frontier expanded in parallel, results merged in deterministic order.

The property module provides
    initial_key(cfg)                 -> hashable
    expand(cfg, hist)                -> list of dicts, one per enabled event:
        {"ev": ev, "key": key, "outcome": str, "viol": [ (sig, oracle, expected, observed) ... ],
         "nontrivial": bool, "steps": int}
"""

import collections
import os
import hashlib
import multiprocessing
import time

from mc import core


def _digest(key):
    return hashlib.blake2b(repr(key).encode(), digest_size=12).digest()


_RECENT = collections.deque(maxlen=40)  # the last worlds this worker process ran: (cfg, history)
_TRIES = collections.Counter()
_DONE = set()


def _verify_in_isolation(modname, cfg, hist, ev, viols):
    """A worker is a long-lived process: what an earlier world left behind in process-wide state of the library
    can make a later history fail (or hide its failure).  A failing history is therefore re-run in a fresh
    interpreter at once.  Returns (status, prelude):
      "isolated"       it fails on its own                                  -> reported as it is
      "prelude"        it fails only after one of this worker's recent worlds -> reported with that prelude
      "represented"    the same signature was already verified by this worker -> not reported again
      "unreproducible" it holds in a fresh interpreter, no prelude found     -> counted, not reported
    """
    key = viols[0][0]
    if key in _DONE:
        return "represented", None
    if _TRIES[key] >= 6:
        return "unreproducible", None
    _TRIES[key] += 1
    case = {"cfg": cfg, "hist": [list(e) for e in hist] + [list(ev)]}
    recent = [{"cfg": c, "hist": [list(e) for e in h]} for c, h in _RECENT if (c, h) != (cfg, tuple(hist) + (tuple(ev),))]
    pre = core.find_prelude(modname, case, recent, max_tries=8)
    if pre is None:
        return "unreproducible", None
    _DONE.add(key)
    return ("prelude", pre) if pre else ("isolated", None)


def _expand_task(args):
    """returns compact per-node results: the main process only sees 12-byte state digests"""
    modname, items = args
    mod = __import__(modname, fromlist=["x"])
    out = []
    agg = collections.Counter()
    steps = 0
    try:
        for ci, cfg, hist in items:
            try:
                rs = mod.expand(cfg, hist)
            except BaseException:
                import traceback

                out.append((ci, hist, None, traceback.format_exc()[-2500:]))
                continue
            compact = []
            for r in rs:
                agg[r["outcome"]] += 1
                steps += r.get("steps", len(hist) + 1)
                prelude, viols, unrep = None, r["viol"], 0
                if viols:
                    try:
                        status, prelude = _verify_in_isolation(modname, cfg, hist, r["ev"], viols)
                    except BaseException:  # noqa
                        status = "unreproducible"
                    if status in ("represented", "unreproducible"):
                        unrep = 1 if status == "unreproducible" else 0
                        viols = []
                compact.append((r["ev"], _digest(r["key"]), bool(r.get("nontrivial")), bool(r.get("stop") or unrep), viols, prelude, unrep, bool(r["viol"])))
                _RECENT.append((cfg, tuple(tuple(e) for e in hist) + (tuple(r["ev"]),)))
            out.append((ci, hist, compact, None))
    finally:
        core.cleanup_scratch()
    return out, agg, steps


def run_bfs(modname, configs, st, max_depth, max_states, deadline_s, chunk=24, nproc=None, label=lambda c: str(c)):
    mod = __import__(modname, fromlist=["x"])
    nproc = nproc or core.NPROC

    def cfg_depth(cfg):
        return cfg.get("max_depth", max_depth) if isinstance(cfg, dict) else max_depth

    seen = []
    frontier = []
    for ci, cfg in enumerate(configs):
        seen.append({_digest(mod.initial_key(cfg))})
        frontier.append((ci, cfg, ()))
    t0 = time.time()
    depth = 0
    per_cfg_depth = [0] * len(configs)
    capped = [None] * len(configs)
    ctx = multiprocessing.get_context("fork")
    with ctx.Pool(nproc, initializer=core._worker_init, initargs=(core.REPO, None)) as pool:
        while frontier:
            frontier = [f for f in frontier if depth < cfg_depth(f[1])]
            if not frontier:
                break
            if time.time() - t0 > deadline_s:
                for ci, _, _ in frontier:
                    capped[ci] = "time budget %ds reached at depth %d" % (deadline_s, depth)
                break
            ch = max(1, min(chunk, len(frontier) // (nproc * 4)))
            tasks = [(modname, frontier[i : i + ch]) for i in range(0, len(frontier), ch)]
            nxt = []
            timed_out = False
            for res, agg, steps in pool.imap(_expand_task, tasks):
                if time.time() - t0 > deadline_s * 1.15:
                    timed_out = True  # stop consuming: the level is abandoned, counted as a cap
                    break
                st.outcomes.update(agg)
                st.evaluations += steps
                for ci, hist, results, err in res:
                    if err:
                        st.extra.setdefault("harness_errors", []).append(err)
                        continue
                    cfg = configs[ci]
                    for ev, k, nontriv, stop, viols, prelude, unrep, failed in results:
                        st.transitions += 1
                        if failed:
                            st.extra["failing_transitions_seen_by_workers"] = st.extra.get("failing_transitions_seen_by_workers", 0) + 1
                        if unrep:
                            st.extra["failures_not_reproducible_in_a_fresh_interpreter"] = st.extra.get("failures_not_reproducible_in_a_fresh_interpreter", 0) + 1
                        for sig, oracle, exp, obs in viols:
                            case = {"cfg": cfg, "hist": list(hist) + [ev]}
                            if prelude:
                                # fails only after another world ran in the same process
                                case["prelude"] = prelude
                                sig = sig + ":only after another history in the same process"
                            st.violation(sig, case, oracle, expected=exp, observed=obs)
                        if stop:
                            continue  # do not explore beyond a transition the model could not follow
                        if k not in seen[ci]:
                            if len(seen[ci]) >= max_states:
                                capped[ci] = "state cap %d reached at depth %d" % (max_states, depth + 1)
                                continue
                            seen[ci].add(k)
                            if nontriv:
                                st.nontrivial += 1
                            nxt.append((ci, cfg, tuple(hist) + (tuple(ev),)))
                            if len(st.samples) < 4 and len(hist) >= 3:
                                st.sample({"cfg": cfg, "history": list(hist) + [ev]})
            if timed_out:
                for ci, _, _ in frontier:
                    capped[ci] = "time budget %ds reached inside depth %d (level incomplete)" % (deadline_s, depth + 1)
                pool.terminate()
                break
            depth += 1
            if os.environ.get("VERIF_DEBUG"):
                print("bfs depth=%d frontier=%d next=%d t=%.1fs" % (depth, len(frontier), len(nxt), time.time() - t0), flush=True)
            for ci, _, _ in nxt:
                per_cfg_depth[ci] = depth
            frontier = nxt
            st.traces += len(nxt)
    st.states += sum(len(s) for s in seen)
    info = {}
    for ci, cfg in enumerate(configs):
        info[label(cfg)] = {
            "states": len(seen[ci]),
            "depth": per_cfg_depth[ci],
            "fixpoint": capped[ci] is None and per_cfg_depth[ci] < cfg_depth(cfg),
            "cap": capped[ci],
        }
        info[label(cfg)]["depth_bound"] = cfg_depth(cfg)
        if capped[ci] is not None:
            st.exhaustive = False
            st.caps.append("%s: %s" % (label(cfg), capped[ci]))
    st.extra.setdefault("bfs", {}).update(info)
    return seen
