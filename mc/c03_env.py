"""Context objects for the C03 programs.

Everything here is plain Python, independent of mako.  A context value written
as the string "@helper:<name>" in a case / corpus entry stands for the
module-level object <name> of this module (see `resolve_ctx`), so that another
process can rebuild exactly the same render context.
"""


class cm:
    """Context manager for `% with cm(context, 'm') as v:`.

    Writes '<m' when entered and 'm>' when left (also when left by an
    exception, a `return`, `break` or `continue`), through the documented
    `context.write()`; the value bound by `as` is the tag.  It never swallows
    an exception.
    """

    def __init__(self, context, tag):
        self.context = context
        self.tag = tag

    def __enter__(self):
        self.context.write("<" + self.tag)
        return self.tag

    def __exit__(self, et, ev, tb):
        self.context.write(self.tag + ">")
        return False


class _FakeLoop:
    """An ordinary object passed under the name `loop` when the loop context is
    disabled: every documented attribute answers a tagged constant, so output
    produced from it cannot be confused with that of a real loop context."""

    index = "Fi"
    first = "Ff"
    last = "Fl"
    even = "Fe"
    odd = "Fo"
    reverse_index = "Fr"

    @property
    def parent(self):
        return self

    def cycle(self, *values):
        return "Fc"

    def __str__(self):
        return "FAKELOOP"


FAKELOOP = _FakeLoop()


def gen3():
    """A fresh generator (no __len__) of three items."""
    return (z for z in (1, 2, 3))


class NoLen:
    """An iterable without __len__ that can be iterated repeatedly."""

    def __init__(self, items):
        self.items = items

    def __iter__(self):
        return iter(self.items)


NOLEN2 = NoLen((1, 2))


def boom(kind="ValueError"):
    """Raise from inside an expression."""
    if kind == "KeyError":
        raise KeyError("k")
    raise ValueError("v")


def resolve_ctx(ctx):
    """{"name": json value | "@helper:<name>"} -> the real render context."""
    out = {}
    g = globals()
    for k, v in ctx.items():
        if isinstance(v, str) and v.startswith("@helper:"):
            out[k] = g[v[len("@helper:"):]]
        else:
            out[k] = v
    return out
