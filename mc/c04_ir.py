"""C04 helper: a small template IR and its printer into Mako syntax.

A program is {"files": {uri: File}, "main": uri}.  A File is a dict

    {"page": "<args source>" | None,       # <%page args="..."/>
     "page_attrs": {name: value},           # further <%page> attributes (enable_loop ...)
     "module": ["python source", ...],      # <%! %> blocks
     "nsimport": [[uri, "a, b"], ...],      # <%namespace file=uri import="a, b"/>   ([uri, names, owner]: the defs are inherited by uri from owner)
     "inherit": uri,                        # <%inherit file=uri/>
     "body": [Stmt, ...]}

and a Stmt one of

    ["text", s]                          literal text (no directive characters)
    ["expr", py, [filter, ...]]          ${py} / ${py | f1, f2}
    ["code", src]                        <% src %>
    ["ctl", [[header, [Stmt]], ...], end]   % header ... % end   (for/if/while/try/with and their continuations)
    ["def", name, params, [Stmt]]        <%def name="name(params)"> ... </%def>
    ["block", name|None, [Stmt]]         <%block [name="name"]> ... </%block>
    ["call", py, args|None, [Stmt]]      <%call expr="py" [args="args"]> ... </%call>
    ["nscall", ns, name, [[attr, py], ...], [Stmt]]   <%ns:name attr="${py}" ...> ... </%ns:name>

`normalize` makes the line structure explicit: a `%` line has to start a line and
the text line before `% end` has to be terminated, so the newlines that the
printer needs are inserted into the IR as ordinary ["text", "\n"] nodes.  The
reference interpreter therefore never looks at the Mako text: it sees exactly
the text nodes that are printed.  (Documented rule used: the line terminator of
a `%` line belongs to the directive and is not output.)
"""


def _norm(stmts, bol):
    out = []
    for st in stmts:
        k = st[0]
        if k == "text":
            if st[1]:
                out.append(st)
                bol = st[1].endswith("\n")
        elif k == "ctl":
            arms = []
            for header, body in st[1]:
                if not bol:
                    if arms:
                        # terminate the last text line of the previous arm
                        arms[-1][1].append(["text", "\n"])
                    else:
                        out.append(["text", "\n"])
                nb, b2 = _norm(body, True)
                arms.append([header, nb])
                bol = b2
            if not bol:
                arms[-1][1].append(["text", "\n"])
            out.append(["ctl", arms, st[2]])
            bol = True
        elif k == "def":
            nb, _ = _norm(st[3], False)
            out.append(["def", st[1], st[2], nb])
            bol = False
        elif k == "block":
            nb, _ = _norm(st[2], False)
            out.append(["block", st[1], nb])
            bol = False
        elif k == "call":
            nb, _ = _norm(st[3], False)
            out.append(["call", st[1], st[2], nb])
            bol = False
        elif k == "nscall":
            nb, _ = _norm(st[4], False)
            out.append(["nscall", st[1], st[2], st[3], nb])
            bol = False
        elif k in ("expr", "code"):
            out.append(st)
            bol = False
        else:
            raise ValueError("unknown stmt %r" % (st,))
    return out, bol


def normalize_file(f):
    g = dict(f)
    # what precedes the body on the first line (page tag, module blocks, namespace tags) is not a line start,
    # unless nothing precedes it
    head = bool(f.get("page") is not None or f.get("page_attrs") or f.get("module") or f.get("nsimport"))
    g["body"], _ = _norm(f["body"], not head)
    return g


def normalize(prog):
    return {"files": {u: normalize_file(f) for u, f in prog["files"].items()}, "main": prog["main"]}


def _q(s):
    """attribute value in double quotes: the generator never uses a double quote inside"""
    assert '"' not in s, s
    return '"' + s + '"'


def _print_stmts(stmts, out):
    for st in stmts:
        k = st[0]
        if k == "text":
            out.append(st[1])
        elif k == "expr":
            if st[2]:
                out.append("${%s | %s}" % (st[1], ", ".join(st[2])))
            else:
                out.append("${%s}" % st[1])
        elif k == "code":
            src = st[1]
            if "\n" in src:
                out.append("<%\n" + src + "\n%>")
            else:
                out.append("<% " + src + " %>")
        elif k == "ctl":
            for header, body in st[1]:
                out.append("% " + header + "\n")
                _print_stmts(body, out)
            out.append("% " + st[2] + "\n")
        elif k == "def":
            out.append("<%%def name=%s>" % _q("%s(%s)" % (st[1], st[2])))
            _print_stmts(st[3], out)
            out.append("</%def>")
        elif k == "block":
            out.append("<%block" + (" name=" + _q(st[1]) if st[1] else "") + ">")
            _print_stmts(st[2], out)
            out.append("</%block>")
        elif k == "call":
            out.append("<%call expr=" + _q(st[1]) + (" args=" + _q(st[2]) if st[2] is not None else "") + ">")
            _print_stmts(st[3], out)
            out.append("</%call>")
        elif k == "nscall":
            attrs = "".join(" %s=%s" % (a, _q("${%s}" % py)) for a, py in st[3])
            if st[4]:
                out.append("<%%%s:%s%s>" % (st[1], st[2], attrs))
                _print_stmts(st[4], out)
                out.append("</%%%s:%s>" % (st[1], st[2]))
            else:
                out.append("<%%%s:%s%s/>" % (st[1], st[2], attrs))
        else:
            raise ValueError(k)


def print_file(f):
    """normalized File -> Mako source"""
    out = []
    if f.get("page") is not None or f.get("page_attrs"):
        s = "<%page"
        if f.get("page") is not None:
            s += " args=" + _q(f["page"])
        for a, v in (f.get("page_attrs") or {}).items():
            s += " %s=%s" % (a, _q(v))
        out.append(s + "/>")
    if f.get("inherit"):
        out.append("<%%inherit file=%s/>" % _q(f["inherit"]))
    for ent in f.get("nsimport") or []:
        uri, names = ent[0], ent[1]  # (a third element names the file that really holds the defs: reference only)
        out.append("<%%namespace file=%s import=%s/>" % (_q(uri), _q(names)))
    for src in f.get("module") or []:
        if "\n" in src:
            out.append("<%!\n" + src + "\n%>")
        else:
            out.append("<%! " + src + " %>")
    _print_stmts(f["body"], out)
    return "".join(out)


def print_program(prog):
    """normalized program -> {uri: Mako source}"""
    return {u: print_file(f) for u, f in prog["files"].items()}
