#!/bin/sh
# run every quick check in a scratch copy of /verif (so evidence in /verif is untouched)
rm -rf /var/tmp/vq; mkdir -p /var/tmp/vq; cd /verif; git archive HEAD | tar -x -C /var/tmp/vq
cd /var/tmp/vq
for i in 01 02 03 04 05 06 07 08 09 10 11 12 13 14 15 16 17 18 19 20; do
  s=$(date +%s); VERIF_SEED=${1:-0} ./run C$i --tier quick > /var/tmp/vq/C$i.log 2>&1; rc=$?; e=$(date +%s)
  echo "C$i rc=$rc wall=$((e-s)) viol=$(grep -c '^VIOLATION' /var/tmp/vq/C$i.log)"
done
