#!/venv/bin/python
"""Verify a seeded change and run checks against it.

  tools/seed_verify.py /var/tmp/seed/out/C14-1 [extra check ids...]

Confirms in a scratch worktree: patch applies, mako's suite still 567 passed, demo PASSes on the clean tree and FAILs on the
changed one; then runs the property's quick check (and any extra ids) with VERIF_REPO at the changed tree.
Copies the directory to /verif/seeded/<name>/ and writes the results into meta.json ("verified").
"""
import json, os, re, shutil, subprocess, sys, tempfile

src = sys.argv[1].rstrip("/")
name = os.path.basename(src)
prop = name.split("-")[0]
checks = [prop] + sys.argv[2:]
V = os.path.dirname(os.path.dirname(os.path.abspath(__file__)))
wt = tempfile.mkdtemp(prefix="mako-seed-", dir="/var/tmp"); os.rmdir(wt)
res = {}
try:
    subprocess.check_call(["git", "-C", "/repo", "worktree", "add", "-q", "--detach", wt, "HEAD"])
    demo = os.path.join(src, "demo.py")
    def run_demo():
        p = subprocess.run(["/venv/bin/python", "-B", demo], capture_output=True, text=True, env={**os.environ, "PYTHONPATH": wt}, cwd=wt, timeout=600)
        return p.returncode, (p.stdout.strip().splitlines() or [""])[-1][:200]
    res["demo_clean"] = run_demo()
    subprocess.check_call(["git", "-C", wt, "apply", os.path.join(src, "patch.diff")])
    p = subprocess.run(["/venv/bin/python", "-m", "pytest", "-q", "-p", "no:cacheprovider", "-q", "--timeout=300",
                        "--deselect", "test/test_exceptions.py::ExceptionsTest::test_custom_tback",
                        "--deselect", "test/test_exceptions.py::ExceptionsTest::test_py_utf8_html_error_template",
                        "--deselect", "test/test_exceptions.py::ExceptionsTest::test_utf8_format_exceptions_pygments"],
                       cwd=wt, capture_output=True, text=True, env={**os.environ, "PYTHONPATH": wt})
    res["tests"] = (p.stdout.strip().splitlines() or [p.stderr[-200:]])[-1]
    res["demo_changed"] = run_demo()
    for c in checks:
        p = subprocess.run([os.path.join(V, "run"), c, "--tier", "quick"], capture_output=True, text=True, env={**os.environ, "VERIF_REPO": wt, "VERIF_EVIDENCE_DIR": "/var/tmp/verif-evidence-changed-tree"})
        sigs = sorted(set(re.findall(r"sig=(.*)", p.stdout)))
        res["check_" + c] = {"exit": p.returncode, "violations": len([l for l in p.stdout.splitlines() if l.startswith("VIOLATION")]), "sigs": sigs[:8]}
finally:
    subprocess.call(["git", "-C", "/repo", "worktree", "remove", "--force", wt])
    shutil.rmtree(wt, ignore_errors=True)
ok = res.get("demo_clean", (1,))[0] == 0 and res.get("demo_changed", (0,))[0] != 0 and "567 passed" in res.get("tests", "")
res["admissible"] = ok
print(json.dumps(res, indent=1))
dst = os.path.join(V, "seeded", name)
if ok:
    os.makedirs(dst, exist_ok=True)
    for f in os.listdir(src):
        shutil.copy(os.path.join(src, f), dst)
    mp = os.path.join(dst, "meta.json")
    try:
        meta = json.load(open(mp))
    except Exception:
        meta = {}
    meta["verified"] = res
    meta["what_i_ran"] = "tools/seed_verify.py: suite in a scratch worktree with the patch; demo.py on the clean and on the changed worktree; ./run <id> --tier quick with VERIF_REPO=<changed worktree>"
    json.dump(meta, open(mp, "w"), indent=1)
