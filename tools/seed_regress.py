#!/venv/bin/python
"""Re-run the checks against seeded changes that were already verified (suite / demo are not repeated).

  tools/seed_regress.py [-j N] [--also C16,C13] [--write] SEED [SEED...]      SEED = C14-1 | 'C14-*' | all

For every seed: scratch worktree of /repo HEAD (outside /repo and /verif), `git apply seeded/<seed>/patch.diff`,
`./run <ID> --tier quick` for the seed's own property and every check id recorded in its meta.json (plus --also),
with VERIF_REPO at the worktree.  Prints one line per seed; with --write the exits go into meta.json
("verified.check_<ID>").  Exit 0 iff every seed is reported (exit 1) by at least one of its checks.
"""
import argparse, concurrent.futures as cf, fnmatch, json, os, re, shutil, subprocess, sys, tempfile

V = os.path.dirname(os.path.dirname(os.path.abspath(__file__)))
ap = argparse.ArgumentParser()
ap.add_argument("-j", type=int, default=2)
ap.add_argument("--also", default="")
ap.add_argument("--own", action="store_true", help="only the seed's own property")
ap.add_argument("--write", action="store_true")
ap.add_argument("--nproc", default="")
ap.add_argument("seeds", nargs="+")
a = ap.parse_args()
allseeds = sorted(os.listdir(os.path.join(V, "seeded")))
names = []
for s in a.seeds:
    names += allseeds if s == "all" else [n for n in allseeds if fnmatch.fnmatch(n, s)]
names = sorted(set(names), key=lambda n: (n.split("-")[0], int(n.split("-")[1])))


def one(name):
    d = os.path.join(V, "seeded", name)
    meta = json.load(open(os.path.join(d, "meta.json")))
    prop = name.split("-")[0]
    ids = [prop]
    if not a.own:
        ids += [k[6:] for k in meta.get("verified", {}) if k.startswith("check_") and k[6:] != prop]
    ids += [x for x in a.also.split(",") if x and x not in ids]
    wt = tempfile.mkdtemp(prefix="mako-sr-", dir="/var/tmp"); os.rmdir(wt)
    out = {}
    try:
        subprocess.check_call(["git", "-C", "/repo", "worktree", "add", "-q", "--detach", wt, "HEAD"])
        r = subprocess.run(["git", "-C", wt, "apply", os.path.join(d, "patch.diff")], capture_output=True, text=True)
        if r.returncode:
            return name, {"apply": r.stderr.strip()[:200]}, meta
        env = {**os.environ, "VERIF_REPO": wt, "VERIF_EVIDENCE_DIR": "/var/tmp/verif-evidence-changed-tree"}
        if a.nproc:
            env["VERIF_NPROC"] = a.nproc
        for c in ids:
            p = subprocess.run([os.path.join(V, "run"), c, "--tier", "quick"], capture_output=True, text=True, env=env)
            sigs = sorted(set(re.findall(r"sig=(.*)", p.stdout)))
            out[c] = {"exit": p.returncode, "violations": len([l for l in p.stdout.splitlines() if l.startswith("VIOLATION")]), "sigs": sigs[:8]}
            if p.returncode not in (0, 1):
                out[c]["tail"] = (p.stdout[-600:] + p.stderr[-600:])
    finally:
        subprocess.call(["git", "-C", "/repo", "worktree", "remove", "--force", wt], stderr=subprocess.DEVNULL)
        shutil.rmtree(wt, ignore_errors=True)
    return name, out, meta


bad = 0
with cf.ThreadPoolExecutor(a.j) as ex:
    for name, out, meta in ex.map(one, names):
        caught = any(v.get("exit") == 1 for v in out.values() if isinstance(v, dict))
        bad += not caught
        print(name, "CAUGHT" if caught else "MISSED", {k: (v.get("exit"), v.get("violations")) if isinstance(v, dict) else v for k, v in out.items()}, flush=True)
        for k, v in out.items():
            if isinstance(v, dict) and v.get("exit") not in (0, 1):
                print("    ", k, v.get("tail", "")[-500:].replace("\n", "\n     "))
        if a.write and "apply" not in out:
            ver = meta.setdefault("verified", {})
            for k, v in out.items():
                v.pop("tail", None)
                ver["check_" + k] = v
            json.dump(meta, open(os.path.join(V, "seeded", name, "meta.json"), "w"), indent=1)
subprocess.call(["git", "-C", "/repo", "worktree", "prune"])
sys.exit(1 if bad else 0)
