#!/venv/bin/python
"""Regenerate MANIFEST.json from the property modules present in mc/props."""
import importlib, json, os, sys

V = os.path.dirname(os.path.dirname(os.path.abspath(__file__)))
sys.path.insert(0, V)
os.chdir(V)
props = [json.loads(l)["id"] for l in open("properties.jsonl")]
checks, na = [], []
for pid in props:
    path = os.path.join("mc", "props", pid.lower() + ".py")
    if not os.path.exists(path):
        na.append({"property_id": pid, "reason": "check not built yet in this phase (design in DESIGN.md section 3); the technique applies"})
        continue
    m = importlib.import_module("mc.props." + pid.lower())
    if not getattr(m, "READY", False):
        na.append({"property_id": pid, "reason": "check under construction in this phase (design in DESIGN.md section 3); the technique applies"})
        continue
    checks.append({
        "property_id": pid,
        "quick_cmd": "./run %s --tier quick" % pid,
        "thorough_cmd": "./run %s --tier thorough" % pid,
        "evidence_file": "/verif/evidence/%s.json" % pid,
        "replay_cmd_template": "./run %s --replay {path}" % pid,
        "engine": m.ENGINE,
        "level_claimed": {"category": m.LEVEL, "text": m.LEVEL_TEXT, "design_ref": "DESIGN.md section 3, " + pid},
        "level_note": m.LEVEL_NOTE,
        "technique": m.TECHNIQUE,
    })
man = {
    "version": 1,
    "setup_cmd": "/venv/bin/python -B tools/selftest.py",
    "hooks": {
        "guard": "MAKO_VERIF",
        "enable": "no hooks in /repo: every seam (clock, file-system proxies, scheduler lock, tracing lexer, cache plug-in) is installed from /verif by rebinding module globals at run time; checks import mako from $VERIF_REPO (default /repo working tree)",
        "baseline_off_cmd": "cd /repo && /venv/bin/python -m pytest -ra -q -p no:cacheprovider --timeout=900 --continue-on-collection-errors",
        "source_commits": [],
        "add_only": True,
    },
    "engines": [
        {"name": "E1", "path": "mc/core.py + mc/props", "kind_free_text": "small-scope exhaustive enumeration of inputs/programs/configurations against a reference model, on the real implementation",
         "serves_properties": [c["property_id"] for c in checks if "E1" in c["engine"]]},
        {"name": "E2", "path": "mc/bfs.py", "kind_free_text": "explicit-state BFS over operation histories of a real object with a reference model, to a fixpoint of the canonical state space",
         "serves_properties": [c["property_id"] for c in checks if "E2" in c["engine"]]},
        {"name": "E3", "path": "mc/faults.py", "kind_free_text": "fault / crash-point enumeration over intercepted environment calls",
         "serves_properties": [c["property_id"] for c in checks if "E3" in c["engine"]]},
        {"name": "E4", "path": "mc/sched.py", "kind_free_text": "controlled scheduler for real threads, iterative context bounding, deterministic replay",
         "serves_properties": [c["property_id"] for c in checks if "E4" in c["engine"]]},
    ],
    "checks": checks,
    "not_applicable": na,
    "notes": "Model checking in the form of bounded exhaustive exploration on the implementation; see DESIGN.md. known_findings.json lists recorded and fixed defects.",
}
json.dump(man, open("MANIFEST.json", "w"), indent=1)
print("checks:", [c["property_id"] for c in checks], "na:", len(na))
