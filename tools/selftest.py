#!/venv/bin/python
"""setup_cmd: offline sanity of the framework (no build step is needed: pure Python)."""
import json, os, sys
V = os.path.dirname(os.path.dirname(os.path.abspath(__file__)))
sys.path.insert(0, V)
from mc import core
core.bind_repo()
import mako
json.load(open(os.path.join(V, "MANIFEST.json")))
json.load(open(os.path.join(V, "known_findings.json")))
os.makedirs(os.path.join(V, "evidence"), exist_ok=True)
print("selftest ok: mako from", os.path.dirname(mako.__file__))
