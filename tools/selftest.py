#!/venv/bin/python
"""setup_cmd: offline sanity of the framework (pure Python, nothing to build) + engine self-tests:
the scheduler explorer is run on toy harnesses whose schedule counts, lost update and deadlock are known."""
import json, math, os, sys

V = os.path.dirname(os.path.dirname(os.path.abspath(__file__)))
sys.path.insert(0, V)
from mc import core, sched

core.bind_repo()
import mako

json.load(open(os.path.join(V, "MANIFEST.json")))
json.load(open(os.path.join(V, "known_findings.json")))
os.makedirs(os.path.join(V, "evidence"), exist_ok=True)


def toy(n_yields, prefix, shared):
    s = sched.Scheduler(prefix)

    def body():
        for _ in range(n_yields):
            v = shared["x"]
            s.yield_point("between read and write")
            shared["x"] = v + 1
        return shared["x"]

    s.spawn(body)
    s.spawn(body)
    return s.run()


# 1. schedule counts: two threads with k yield points each -> every thread is k+1 segments; all interleavings
#    of the 2(k+1) segments minus the forced first... compare with an independent enumeration of choice trees
for k in (1, 2, 3):
    finals = set()

    def run_one(pre):
        sh = {"x": 0}
        ex = toy(k, pre, sh)
        finals.add(sh["x"])
        return ex

    n, capped = sched.explore(run_one, lambda x: None, None)
    expect = math.comb(2 * (k + 1), k + 1)
    assert not capped and n == expect, ("schedule count", k, n, expect)
    # 2. the lost update (final value below 2k) is found, and so is the sequential result
    assert min(finals) < 2 * k and max(finals) == 2 * k, finals
    n0, _ = sched.explore(run_one, lambda x: None, 0)
    assert n0 == 2, ("bound 0 explores exactly the two sequential orders", n0)

# 3. deadlock: opposite lock order
found = []


def run_dl(pre):
    s = sched.Scheduler(pre)
    a, b = s.lock(), s.lock()

    def t1():
        a.acquire(); b.acquire(); b.release(); a.release()

    def t2():
        b.acquire(); a.acquire(); a.release(); b.release()

    s.spawn(t1)
    s.spawn(t2)
    ex = s.run()
    if ex.deadlock:
        found.append(list(ex.choices))
    return ex


sched.explore(run_dl, lambda x: None, 2)
assert found, "the explorer must find the lock-order deadlock"
# 4. deterministic replay of a recorded schedule
ex1 = run_dl(found[0])
ex2 = run_dl(found[0])
assert ex1.deadlock and ex2.deadlock and ex1.choices == ex2.choices
print("selftest ok: mako from %s; explorer: counts, lost update, deadlock, replay verified" % os.path.dirname(mako.__file__))
